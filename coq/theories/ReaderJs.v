(* ReaderJs.v — executable model of rbql-js/rbql_csv.js class CSVRecordIterator (push reader), as the code is
   after commit 016360d (TextDecoder {fatal, ignoreBOM}, decode(chunk, {stream: true}), flush at stream end).

   The JS object is one flat bag of fields; the model groups them:
     jprod   NL, NR, utf8_bom_removed, first_defective_line, fields_info, line_aggregator
     jchunk  partially_decoded_line, partially_decoded_line_ends_with_cr, decoder state
     jcons   input_exhausted, current_exception, produced_records_queue (push_stack / pull_stack), has_header,
             first_record, first_record_should_be_emitted, header_preread_complete,
             resolve_current_record / reject_current_record (modelled: [j_pending]) and the value the pending
             promise was settled with ([j_inbox])
   The producer side (process_data_stream_chunk / process_data_bulk / process_data_stream_end -> process_line ->
   process_record_line_simple / process_partial_rfc_record_line -> process_record_line) computes, per line, the
   list of calls it makes into the consumer-facing side: store_or_propagate_exception(e), enqueue(record) followed
   by try_resolve_next_record(). The consumer-facing side executes them.
   The consumer is the usage made by the rbql engine (and by the harness driver): handle_query_modifier;
   await get_header() (header pre-read); await get_all_records(); get_warnings(). Promise continuations run
   between stream events only when the event loop gets to them: the schedule says after which events they do.
   NO proofs here (ReaderJs_Proofs.v). *)
From RBQL Require Import Base Lines Reader Utf8.

(* ------------------------------------------------------------------ csv_utils.split_lines *)

(* text.split(/\r\n|\r|\n/): always at least one piece *)
Fixpoint js_split_fuel (fuel : nat) (t : str) : list str :=
  match fuel with
  | O => [t]
  | S f => match extract t with
           | None => [t]
           | Some (b, _, a) => b :: js_split_fuel f a
           end
  end.
Definition js_split_lines (t : str) : list str := js_split_fuel (S (length t)) t.

(* ------------------------------------------------------------------ csv_utils.MultilineRecordAggregator *)

Record agg := { rfc_line_buffer : list str; has_full_record : bool; has_comment_line : bool }.

Definition agg_reset : agg := {| rfc_line_buffer := []; has_full_record := false; has_comment_line := false |}.

(* add_line (the 'Invalid usage' guard is never reached: every caller resets after a full record / comment line,
   see ReaderJs_Proofs.agg_clean) *)
Definition add_line (c : cfg) (a : agg) (line_text : str) : agg :=
  if has_full_record a || has_comment_line a then a
  else if (match rfc_line_buffer a with [] => is_comment c line_text | _ => false end)
  then {| rfc_line_buffer := rfc_line_buffer a; has_full_record := has_full_record a; has_comment_line := true |}
  else
    let unbalanced := quotes_odd line_text in
    let buf := rfc_line_buffer a ++ [line_text] in
    {| rfc_line_buffer := buf;
       has_full_record := (negb unbalanced && Nat.eqb (length buf) 1) || (unbalanced && Nat.ltb 1 (length buf));
       has_comment_line := false |}.

Definition is_inside_multiline_record (a : agg) : bool :=
  negb (Nat.eqb (length (rfc_line_buffer a)) 0) && negb (has_full_record a).

Definition get_full_line (a : agg) : str := join [LF] (rfc_line_buffer a).

(* ------------------------------------------------------------------ producer *)

Inductive jerr := JDefect (nr nl : nat) | JUtf8.

Inductive action :=
| AStore (e : jerr)            (* store_or_propagate_exception(e) *)
| AEnqueue (r : list str)      (* produced_records_queue.enqueue(record); try_resolve_next_record() *)
| AExhausted                   (* input_exhausted = true *)
| AResolve.                    (* try_resolve_next_record() *)

Record jprod := {
  jNL : nat; jNR : nat; j_bom : bool; j_fdl : option nat; j_finfo : list (nat * nat); j_agg : agg
}.

Definition jprod_init : jprod :=
  {| jNL := 0; jNR := 0; j_bom := false; j_fdl := None; j_finfo := []; j_agg := agg_reset |}.

Definition set_agg (p : jprod) (a : agg) : jprod :=
  {| jNL := jNL p; jNR := jNR p; j_bom := j_bom p; j_fdl := j_fdl p; j_finfo := j_finfo p; j_agg := a |}.

Section Producer.
  Variable split : str -> list str * bool.

  (* process_record_line *)
  Definition process_record_line (c : cfg) (line : str) (p : jprod) : jprod * list action :=
    let nr := S (jNR p) in
    let '(record, warning) := split line in
    let first := match j_fdl p with None => true | Some _ => false end in
    let fdl := if warning && first then Some (jNL p) else j_fdl p in
    let acts := if warning && first && c_rfc c then [AStore (JDefect nr (jNL p))] else [] in
    ({| jNL := jNL p; jNR := nr; j_bom := j_bom p; j_fdl := fdl;
        j_finfo := fields_info_add (j_finfo p) (length record) nr; j_agg := j_agg p |},
     acts ++ [AEnqueue record]).

  (* process_record_line_simple *)
  Definition process_record_line_simple (c : cfg) (line : str) (p : jprod) : jprod * list action :=
    if is_comment c line then (p, []) else process_record_line c line p.

  (* process_partial_rfc_record_line *)
  Definition process_partial_rfc_record_line (c : cfg) (line : str) (p : jprod) : jprod * list action :=
    let a := add_line c (j_agg p) line in
    if has_comment_line a then (set_agg p agg_reset, [])
    else if has_full_record a then
      let '(p1, acts) := process_record_line c (get_full_line a) (set_agg p a) in
      (set_agg p1 agg_reset, acts)
    else (set_agg p a, []).

  (* process_line *)
  Definition process_line (c : cfg) (line : str) (p : jprod) : jprod * list action :=
    let nl := S (jNL p) in
    let clean := if Nat.eqb nl 1 then remove_utf8_bom line (c_enc c) else line in
    let removed := Nat.eqb nl 1 && negb (str_eqb clean line) in
    let p1 := {| jNL := nl; jNR := jNR p; j_bom := if removed then true else j_bom p; j_fdl := j_fdl p;
                 j_finfo := j_finfo p; j_agg := j_agg p |} in
    if c_rfc c then process_partial_rfc_record_line c clean p1 else process_record_line_simple c clean p1.

  Fixpoint process_lines (c : cfg) (lines : list str) (p : jprod) : jprod * list action :=
    match lines with
    | [] => (p, [])
    | l :: r => let '(p1, a1) := process_line c l p in
                let '(p2, a2) := process_lines c r p1 in (p2, a1 ++ a2)
    end.

  (* the common tail of process_data_bulk and process_data_stream_end *)
  Definition flush_aggregator (c : cfg) (p : jprod) : jprod * list action :=
    if is_inside_multiline_record (j_agg p) then process_record_line c (get_full_line (j_agg p)) p else (p, []).

  (* ---------------------------------------------------------------- chunk layer *)

  Record jchunk := { j_pdl : str; j_pdl_cr : bool; j_dec : dstate }.
  Definition jchunk_init : jchunk := {| j_pdl := []; j_pdl_cr := false; j_dec := d_init |}.

  (* the line arithmetic of process_data_stream_chunk on the decoded string:
     returns (the lines handed to process_line, the new partially_decoded_line, the new ..._ends_with_cr) *)
  Definition chunk_lines (pdl : str) (cr : bool) (decoded : str) : list str * str * bool :=
    let line_starts_with_lf := match decoded with c :: _ => N.eqb c LF | [] => false end in
    let first_line_index_is_1 := line_starts_with_lf && cr in
    let cr' := match last_opt decoded with Some c => N.eqb c CR | None => false end in
    let lines := js_split_lines decoded in
    let lines := (pdl ++ hd [] lines) :: tl lines in       (* lines[0] = partially_decoded_line + lines[0] *)
    let pdl' := last lines [] in                           (* lines.pop() *)
    let lines := removelast lines in
    (if first_line_index_is_1 then tl lines else lines, pdl', cr').

  (* how the bytes of a chunk become a string: util.TextDecoder in stream mode for 'utf-8', toString('binary') else *)
  Definition decode_js (c : cfg) (d : dstate) (chunk : bytes) : option (str * dstate) :=
    match c_enc c with
    | EncUtf8 => decode_chunk d chunk
    | _ => Some (decode_latin1 chunk, d)
    end.

  (* process_data_stream_chunk on an already decoded string *)
  Definition process_decoded_chunk (c : cfg) (decoded : str) (k : jchunk) (p : jprod) : jchunk * jprod * list action :=
    let '(lines, pdl', cr') := chunk_lines (j_pdl k) (j_pdl_cr k) decoded in
    let '(p1, acts) := process_lines c lines p in
    ({| j_pdl := pdl'; j_pdl_cr := cr'; j_dec := j_dec k |}, p1, acts).

  (* process_data_stream_chunk *)
  Definition process_data_stream_chunk (c : cfg) (chunk : bytes) (k : jchunk) (p : jprod) : jchunk * jprod * list action :=
    match decode_js c (j_dec k) chunk with
    | None => (k, p, [AStore JUtf8])
    | Some (decoded, d1) =>
        process_decoded_chunk c decoded {| j_pdl := j_pdl k; j_pdl_cr := j_pdl_cr k; j_dec := d1 |} p
    end.

  (* process_data_stream_end *)
  Definition process_data_stream_end (c : cfg) (k : jchunk) (p : jprod) : jchunk * jprod * list action :=
    let flush_ok := match c_enc c with EncUtf8 => decode_flush (j_dec k) | _ => true end in
    if negb flush_ok then (k, p, [AExhausted; AStore JUtf8])
    else
      let '(p1, a1) := match j_pdl k with
                       | [] => (p, [])
                       | last_line => process_line c last_line p
                       end in
      let '(p2, a2) := flush_aggregator c p1 in
      ({| j_pdl := []; j_pdl_cr := j_pdl_cr k; j_dec := j_dec k |}, p2, [AExhausted] ++ a1 ++ a2 ++ [AResolve]).

  (* process_data_bulk *)
  Definition process_data_bulk (c : cfg) (blob : bytes) (p : jprod) : jprod * list action :=
    let decoded := match c_enc c with
                   | EncUtf8 => decode_whole blob
                   | _ => Some (decode_latin1 blob)
                   end in
    match decoded with
    | None => (p, [AStore JUtf8])
    | Some text =>
        let lines := js_split_lines text in
        let lines := match last_opt lines with Some [] => removelast lines | _ => lines end in
        let '(p1, a1) := process_lines c lines p in
        let '(p2, a2) := flush_aggregator c p1 in
        (p2, a1 ++ a2 ++ [AExhausted; AResolve])
    end.
End Producer.

(* ------------------------------------------------------------------ consumer-facing side *)

Inductive delivery := DRec (r : list str) | DNull | DReject (e : jerr).

Record jcons := {
  j_exhausted : bool;
  j_exc : option jerr;                 (* current_exception *)
  j_push : list (list str);            (* RecordQueue.push_stack, oldest first *)
  j_pull : list (list str);            (* RecordQueue.pull_stack in pop order (head = next pop()) *)
  j_has_header : bool;
  j_first_record : option (list str);
  j_frse : bool;                       (* first_record_should_be_emitted *)
  j_preread : bool;                    (* header_preread_complete *)
  j_pending : bool;                    (* resolve_current_record !== null *)
  j_inbox : option delivery            (* what the promise of the current get_record() was settled with *)
}.

Definition upd_q (q : jcons) (exc : option jerr) (push pull : list (list str)) (frse pending : bool) (inbox : option delivery) : jcons :=
  {| j_exhausted := j_exhausted q; j_exc := exc; j_push := push; j_pull := pull; j_has_header := j_has_header q;
     j_first_record := j_first_record q; j_frse := frse; j_preread := j_preread q; j_pending := pending; j_inbox := inbox |}.

(* RecordQueue.dequeue *)
Definition dequeue (push pull : list (list str)) : option (list str) * list (list str) * list (list str) :=
  match pull with
  | r :: pull' => (Some r, push, pull')
  | [] => match push with
          | [] => (None, [], [])
          | r :: rest => (Some r, [], rest)     (* pull_stack = push_stack reversed; pop() takes the oldest *)
          end
  end.

(* try_propagate_exception *)
Definition try_propagate_exception (q : jcons) : jcons :=
  match j_exc q with
  | Some e => if j_pending q then upd_q q None (j_push q) (j_pull q) (j_frse q) false (Some (DReject e)) else q
  | None => q
  end.

(* store_or_propagate_exception *)
Definition store_or_propagate_exception (e : jerr) (q : jcons) : jcons :=
  let q1 := match j_exc q with
            | None => upd_q q (Some e) (j_push q) (j_pull q) (j_frse q) (j_pending q) (j_inbox q)
            | Some _ => q
            end in
  try_propagate_exception q1.

(* try_resolve_next_record *)
Definition try_resolve_next_record (q0 : jcons) : jcons :=
  let q := try_propagate_exception q0 in
  if negb (j_pending q) then q
  else
    let '(record, q1) :=
      if j_frse q && j_preread q
      then (j_first_record q, upd_q q (j_exc q) (j_push q) (j_pull q) false (j_pending q) (j_inbox q))
      else let '(r, push, pull) := dequeue (j_push q) (j_pull q) in
           (r, upd_q q (j_exc q) push pull (j_frse q) (j_pending q) (j_inbox q)) in
    match record with
    | None => if j_exhausted q1 then upd_q q1 (j_exc q1) (j_push q1) (j_pull q1) (j_frse q1) false (Some DNull) else q1
    | Some r => upd_q q1 (j_exc q1) (j_push q1) (j_pull q1) (j_frse q1) false (Some (DRec r))
    end.

Definition do_action (a : action) (q : jcons) : jcons :=
  match a with
  | AStore e => store_or_propagate_exception e q
  | AEnqueue r => try_resolve_next_record (upd_q q (j_exc q) (j_push q ++ [r]) (j_pull q) (j_frse q) (j_pending q) (j_inbox q))
  | AExhausted =>
      {| j_exhausted := true; j_exc := j_exc q; j_push := j_push q; j_pull := j_pull q; j_has_header := j_has_header q;
         j_first_record := j_first_record q; j_frse := j_frse q; j_preread := j_preread q; j_pending := j_pending q;
         j_inbox := j_inbox q |}
  | AResolve => try_resolve_next_record q
  end.

Definition do_actions (acts : list action) (q : jcons) : jcons := fold_left (fun q a => do_action a q) acts q.

(* constructor + handle_query_modifier *)
Definition jcons_init (c : cfg) : jcons :=
  let hh := match c_modifier c with Some b => b | None => c_header c end in
  {| j_exhausted := false; j_exc := None; j_push := []; j_pull := []; j_has_header := hh;
     j_first_record := None; j_frse := negb hh; j_preread := false; j_pending := false; j_inbox := None |}.

(* ------------------------------------------------------------------ the consumer (engine / driver usage) *)

Inductive cstate :=
| CStart                                  (* nothing called yet *)
| CPreread                                (* inside get_header -> preread_first_record: awaiting get_record() *)
| CLoop (acc : list (list str))           (* inside get_all_records: awaiting get_record() *)
| CDone (r : list (list str) + jerr).     (* get_all_records resolved / something rejected *)

(* get_record(): install the callbacks, try_resolve_next_record() *)
Definition call_get_record (q : jcons) : jcons :=
  try_resolve_next_record (upd_q q (j_exc q) (j_push q) (j_pull q) (j_frse q) true None).

(* run the promise continuations that are ready; [fuel] bounds the number of get_record() calls *)
Fixpoint consumer_run (fuel : nat) (cs : cstate) (q : jcons) : cstate * jcons :=
  match fuel with
  | O => (cs, q)
  | S f =>
      match cs with
      | CStart => consumer_run f CPreread (call_get_record q)
      | CPreread =>
          match j_inbox q with
          | None => (cs, q)
          | Some (DReject e) => (CDone (inr e), q)
          | Some d =>
              let fr := match d with DRec r => Some r | _ => None end in
              let q1 := {| j_exhausted := j_exhausted q; j_exc := j_exc q; j_push := j_push q; j_pull := j_pull q;
                           j_has_header := j_has_header q; j_first_record := fr; j_frse := j_frse q; j_preread := true;
                           j_pending := j_pending q; j_inbox := None |} in
              consumer_run f (CLoop []) (call_get_record q1)
          end
      | CLoop acc =>
          match j_inbox q with
          | None => (cs, q)
          | Some (DReject e) => (CDone (inr e), q)
          | Some DNull => (CDone (inl acc), q)
          | Some (DRec r) => consumer_run f (CLoop (acc ++ [r])) (call_get_record q)
          end
      | CDone _ => (cs, q)
      end
  end.

Definition consumer_fuel (q : jcons) : nat := 5 + length (j_push q) + length (j_pull q).

(* ------------------------------------------------------------------ whole runs *)

Inductive jresult :=
| JOk (records : list (list str)) (header : option (list str)) (w : warnings) (nl nr : nat)
| JErr (e : jerr)
| JStuck.           (* the consumer never got an answer: excluded by the theorems *)

Definition js_header (q : jcons) : option (list str) := if j_has_header q then j_first_record q else None.

Definition js_warnings (p : jprod) : warnings := mk_warnings (j_bom p) (j_fdl p) (j_finfo p).

(* the order of get_warnings() in the JS port: defective line, BOM, field counts *)
Definition js_warning_list (w : warnings) : list warning_item := w_def_items w ++ w_bom_items w ++ w_fld_items w.

Definition js_finish (cs : cstate) (q : jcons) (p : jprod) : jresult :=
  match cs with
  | CDone (inl recs) => JOk recs (js_header q) (js_warnings p) (jNL p) (jNR p)
  | CDone (inr e) => JErr e
  | _ => JStuck
  end.

Section Runs.
  Variable split : str -> list str * bool.

  (* one stream event = the actions it performs, then (if the schedule says so) the ready continuations *)
  Definition after_event (acts : list action) (run_consumer : bool) (cs : cstate) (q : jcons) : cstate * jcons :=
    let q1 := do_actions acts q in
    if run_consumer then consumer_run (consumer_fuel q1) cs q1 else (cs, q1).

  (* stream path over byte chunks; sched[i] = continuations run after the i-th 'data' event *)
  Fixpoint stream_events (c : cfg) (chunks : list (bytes * bool)) (k : jchunk) (p : jprod) (cs : cstate) (q : jcons)
    : jchunk * jprod * cstate * jcons :=
    match chunks with
    | [] => (k, p, cs, q)
    | (chunk, b) :: r =>
        let '(k1, p1, acts) := process_data_stream_chunk split c chunk k p in
        let '(cs1, q1) := after_event acts b cs q in
        stream_events c r k1 p1 cs1 q1
    end.

  (* [b0]: whether the continuation of `await this.start()` inside the first get_record() (which installs the
     promise callbacks) runs before the first 'data' event; an already buffered stream emits from process.nextTick *)
  Definition run_js_stream (c : cfg) (b0 : bool) (chunks : list (bytes * bool)) : jresult :=
    let q0 := jcons_init c in
    let '(cs0, q1) := if b0 then consumer_run (consumer_fuel q0) CStart q0 else (CStart, q0) in
    let '(k, p, cs1, q2) := stream_events c chunks jchunk_init jprod_init cs0 q1 in
    let '(_, p1, acts) := process_data_stream_end split c k p in
    let '(cs2, q3) := after_event acts true cs1 q2 in
    js_finish cs2 q3 p1.

  (* stream path over already decoded chunks (every encoding other than utf-8 decodes chunk by chunk) *)
  Fixpoint decoded_events (c : cfg) (chunks : list (str * bool)) (k : jchunk) (p : jprod) (cs : cstate) (q : jcons)
    : jchunk * jprod * cstate * jcons :=
    match chunks with
    | [] => (k, p, cs, q)
    | (d, b) :: r =>
        let '(k1, p1, acts) := process_decoded_chunk split c d k p in
        let '(cs1, q1) := after_event acts b cs q in
        decoded_events c r k1 p1 cs1 q1
    end.

  Definition run_js_decoded (c : cfg) (b0 : bool) (chunks : list (str * bool)) : jresult :=
    let q0 := jcons_init c in
    let '(cs0, q1) := if b0 then consumer_run (consumer_fuel q0) CStart q0 else (CStart, q0) in
    let '(k, p, cs1, q2) := decoded_events c chunks jchunk_init jprod_init cs0 q1 in
    let '(_, p1, acts) := process_data_stream_end split c k p in
    let '(cs2, q3) := after_event acts true cs1 q2 in
    js_finish cs2 q3 p1.

  (* bulk path: start() reads the file, process_data_bulk, then the consumer *)
  Definition run_js_bulk (c : cfg) (blob : bytes) : jresult :=
    let q0 := jcons_init c in
    let '(p1, acts) := process_data_bulk split c blob jprod_init in
    let q1 := do_actions acts q0 in
    let '(cs, q2) := consumer_run (consumer_fuel q1) CStart q1 in
    js_finish cs q2 p1.
End Runs.

(* the lines handed to process_line by the stream path, for decoded chunks: the subject of C20_lines *)
Fixpoint lines_js_from (pdl : str) (cr : bool) (chunks : list str) : list str :=
  match chunks with
  | [] => match pdl with [] => [] | _ => [pdl] end
  | d :: r => let '(ls, pdl', cr') := chunk_lines pdl cr d in ls ++ lines_js_from pdl' cr' r
  end.
Definition lines_js (chunks : list str) : list str := lines_js_from [] false chunks.

(* the lines handed to process_line by the bulk path *)
Definition lines_js_bulk (text : str) : list str :=
  let lines := js_split_lines text in
  match last_opt lines with Some [] => removelast lines | _ => lines end.
