(* NumLit.v - which strings are numbers: Python 3 int(s) (base 10) and float(s), JavaScript Number(s) as rbql-js uses it
   (parse_number: NaN and empty / blank strings are rejected).  Model only; proofs in NumLit_Proofs.v; entry 570 in EntryNumLit.v;
   correspondence with the real int / float / Number and with both engines in harness/props/numlit.py.

   Strings are lists of code points.  Only code points below 128 are modelled: a string with any other code point gives
   NLUnmodelled (Python accepts non-ASCII decimal digits and spaces, JavaScript non-ASCII white space).
   Results: NLOk v (the exact value), NLError (ValueError / NaN or blank), NLUnmodelled (no statement).

   White space.  CPython strips space, TAB, LF, VT, FF, CR.  On a str that contains a non-ASCII character it strips 0x1C-0x1F
   as well, but on an all-ASCII str (the only ones modelled) it does not: int(chr(28) + one) is a ValueError on CPython 3.12
   (probed; the harness keeps probing it).  The ASCII part of JavaScript's StrWhiteSpaceChar is the same six characters, and
   so is what String.prototype.trim removes.  Hence one white space class for the three functions: Base.is_ws.

   Underscores (Python only, PEP 515): an underscore must stand between two digits; CPython checks that, removes them and
   parses what is left (strip_us); JavaScript's StringNumericLiteral has no separators.

   Values are exact rationals in lowest terms (mk_q); a Python float / JavaScript number is the double nearest to it
   (overflow to an infinity included), which is how the correspondence run compares.  Spellings of infinities and NaN
   (inf, infinity, nan in any case for Python; Infinity for JavaScript; optional sign) give NLUnmodelled, and so do exponent
   parts beyond +-400 (the rational would be astronomically large; the doubles are 0 or an infinity there).
   int(s) refuses more than 4300 digits by default (sys.int_info.default_max_str_digits, an interpreter setting):
   NLUnmodelled. *)
From RBQL Require Import Base Value.
From Coq Require Import QArith.
Local Open Scope N_scope.

Inductive nl_result (T : Type) : Type := NLOk (v : T) | NLError | NLUnmodelled.
Arguments NLOk {T} v.
Arguments NLError {T}.
Arguments NLUnmodelled {T}.

Definition nl_of_option {T} (o : option T) : nl_result T := match o with Some v => NLOk v | None => NLError end.

Definition is_ascii (c : ch) : bool := N.ltb c 128.
Definition all_ascii (s : str) : bool := forallb is_ascii s.

Definition nl_digit (c : ch) : bool := N.leb 48 c && N.leb c 57.
Definition all_digits (s : str) : bool := forallb nl_digit s.
Definition nl_nonempty (s : str) : bool := match s with [] => false | _ => true end.

(* value of a digit string in a base (digits are checked separately); most significant digit first *)
Definition dig_val (c : ch) : Z := Z.of_N (c - 48).
Fixpoint digits_val_acc (acc : Z) (s : str) : Z :=
  match s with [] => acc | c :: t => digits_val_acc (acc * 10 + dig_val c)%Z t end.
Definition digits_val (s : str) : Z := digits_val_acc 0%Z s.

(* the longest prefix of digits, and the rest *)
Fixpoint span_digits (s : str) : str * str :=
  match s with
  | [] => ([], [])
  | c :: t => if nl_digit c then let '(a, b) := span_digits t in (c :: a, b) else ([], s)
  end.

(* PEP 515: every underscore has a digit before it and a digit after it; the text without them.  None = ValueError *)
Fixpoint strip_us (prev_digit : bool) (s : str) : option str :=
  match s with
  | [] => Some []
  | c :: t =>
      if N.eqb c 95 then
        if prev_digit then
          match t with
          | d :: _ => if nl_digit d then strip_us false t else None
          | [] => None
          end
        else None
      else option_map (cons c) (strip_us (nl_digit c) t)
  end.
Definition remove_underscores (s : str) : option str := strip_us false s.

Definition signed (neg : bool) (z : Z) : Z := if neg then Z.opp z else z.

(* ---- int(s), base 10 ---- *)
Definition MAX_STR_DIGITS : nat := 4300.

Definition int_body (u : str) : nl_result Z :=
  let '(neg, d) := split_sign u in
  if nl_nonempty d && all_digits d
  then if Nat.ltb MAX_STR_DIGITS (length d) then NLUnmodelled else NLOk (signed neg (digits_val d))
  else NLError.

Definition py_int_lit (s : str) : nl_result Z :=
  if all_ascii s then
    match remove_underscores (strip s) with
    | Some u => int_body u
    | None => NLError
    end
  else NLUnmodelled.

(* ---- decimal literals: [+-]? ( digits [. digits*] | . digits ) ( [eE] [+-]? digits )? ---- *)
Definition is_e (c : ch) : bool := N.eqb c 101 || N.eqb c 69.

(* the exponent part, which must run to the end of the text; absent = 0 *)
Definition parse_exp (r : str) : option Z :=
  match r with
  | [] => Some 0%Z
  | c :: t =>
      if is_e c then
        let '(neg, d) := split_sign t in
        if nl_nonempty d && all_digits d then Some (signed neg (digits_val d)) else None
      else None
  end.

Definition EXP_LIMIT : Z := 400%Z.

(* m * 10^e as a rational in lowest terms *)
Definition mk_q (m e : Z) : Q :=
  if Z.leb 0 e then inject_Z (m * 10 ^ e) else Qred (Qmake m (Z.to_pos (10 ^ (- e)))).

Definition decimal_lit (s : str) : nl_result Q :=
  let '(neg, d) := split_sign s in
  let '(ip, r1) := span_digits d in
  let '(fp, r2) := match r1 with
                   | c :: r => if N.eqb c 46 then span_digits r else ([], r1)
                   | [] => ([], r1)
                   end in
  if nl_nonempty ip || nl_nonempty fp then
    match parse_exp r2 with
    | Some e => if Z.ltb EXP_LIMIT (Z.abs e) then NLUnmodelled
                else NLOk (mk_q (signed neg (digits_val (ip ++ fp))) (e - Z.of_nat (length fp)))
    | None => NLError
    end
  else NLError.

(* ---- float(s) ---- *)
Definition nl_lower (c : ch) : ch := if N.leb 65 c && N.leb c 90 then c + 32 else c.
Definition W_inf : str := [105; 110; 102].
Definition W_infinity : str := [105; 110; 102; 105; 110; 105; 116; 121].
Definition W_nan : str := [110; 97; 110].
Definition W_Infinity : str := [73; 110; 102; 105; 110; 105; 116; 121].

(* [+-]? ( inf | infinity | nan ), any case *)
Definition py_special (u : str) : bool :=
  let w := map nl_lower (snd (split_sign u)) in
  str_eqb w W_inf || str_eqb w W_infinity || str_eqb w W_nan.

Definition py_float_lit (s : str) : nl_result Q :=
  if all_ascii s then
    match remove_underscores (strip s) with
    | Some u => if py_special u then NLUnmodelled else decimal_lit u
    | None => NLError
    end
  else NLUnmodelled.

(* ---- Number(s) followed by parse_number's rejections ---- *)
Definition radix_digit (c : ch) : option Z :=
  if nl_digit c then Some (Z.of_N (c - 48))
  else if N.leb 97 c && N.leb c 102 then Some (Z.of_N (c - 87))
  else if N.leb 65 c && N.leb c 70 then Some (Z.of_N (c - 55))
  else None.

Fixpoint radix_val (base : Z) (acc : Z) (s : str) : option Z :=
  match s with
  | [] => Some acc
  | c :: t => match radix_digit c with
              | Some d => if Z.ltb d base then radix_val base (acc * base + d)%Z t else None
              | None => None
              end
  end.

(* 0x / 0o / 0b (either case): the base *)
Definition radix_prefix (t : str) : option (Z * str) :=
  match t with
  | z :: c :: r =>
      if N.eqb z 48 then
        if N.eqb c 120 || N.eqb c 88 then Some (16%Z, r)
        else if N.eqb c 111 || N.eqb c 79 then Some (8%Z, r)
        else if N.eqb c 98 || N.eqb c 66 then Some (2%Z, r)
        else None
      else None
  | _ => None
  end.

(* [+-]? Infinity *)
Definition js_special (t : str) : bool := str_eqb (snd (split_sign t)) W_Infinity.

Definition js_number_lit (s : str) : nl_result Q :=
  if all_ascii s then
    let t := strip s in
    match t with
    | [] => NLError                                   (* Number gives 0; rbql-js: an empty cell is not a number *)
    | _ =>
        if js_special t then NLUnmodelled
        else match radix_prefix t with
             | Some (b, r) => match r with
                              | [] => NLError
                              | _ => match radix_val b 0 r with Some z => NLOk (inject_Z z) | None => NLError end
                              end
             | None => decimal_lit t
             end
    end
  else NLUnmodelled.

(* ---- the common core [+-]? digits ( . digits )? : the domain of Value.parse_int / Value.parse_float ---- *)
Definition numeric_core (s : str) : bool :=
  let '(ip, r1) := span_digits (snd (split_sign s)) in
  nl_nonempty ip &&
  match r1 with
  | [] => true
  | c :: r => N.eqb c 46 && nl_nonempty r && all_digits r
  end.

Definition has_dot (s : str) : bool := has 46 s.

(* ---- the notation on which float(s) and Number(s) are the same function: no underscore, no radix prefix,
   no spelling of an infinity or of NaN (ASCII: the model's domain) ---- *)
Definition common_notation (s : str) : bool :=
  all_ascii s && negb (has 95 s) && negb (py_special (strip s)) && negb (js_special (strip s))
  && match radix_prefix (strip s) with Some _ => false | None => true end.
