(* CsvStr_Proofs.v — characterising lemmas for the Base string primitives used by the CSV dialect
   (starts_with, strip_prefix, find, split, join, count).  Proofs only. *)
From RBQL Require Import Base.

Lemma str_eqb_refl a : str_eqb a a = true.
Proof. induction a as [|x a IH]; [reflexivity|]. cbn [str_eqb]. rewrite N.eqb_refl, IH. reflexivity. Qed.

Lemma str_eqb_eq a b : str_eqb a b = true <-> a = b.
Proof.
  split; [|intros ->; apply str_eqb_refl].
  revert b. induction a as [|x a IH]; intros [|y b] H; cbn [str_eqb] in H; try discriminate; [reflexivity|].
  apply andb_true_iff in H. destruct H as [H1 H2]. apply N.eqb_eq in H1. subst y. f_equal. apply IH, H2.
Qed.

Lemma has_app c a b : has c (a ++ b) = has c a || has c b.
Proof. unfold has. apply existsb_app. Qed.

Lemma has_false_not_in c s : has c s = false -> ~ In c s.
Proof.
  unfold has. intros H Hin. assert (existsb (N.eqb c) s = true) as E.
  { apply existsb_exists. exists c. split; [assumption|apply N.eqb_refl]. }
  congruence.
Qed.

Lemma has_true_in c s : has c s = true -> In c s.
Proof.
  unfold has. intros H. apply existsb_exists in H. destruct H as [x [Hin E]]. apply N.eqb_eq in E. subst x. assumption.
Qed.

Lemma in_has c s : In c s -> has c s = true.
Proof. intros H. unfold has. apply existsb_exists. exists c. split; [assumption|apply N.eqb_refl]. Qed.

(* ---------------------------------------------------------------- starts_with / strip_prefix *)

Lemma starts_with_app p s : starts_with p (p ++ s) = true.
Proof. induction p as [|c p IH]; [reflexivity|]. cbn [app starts_with]. rewrite N.eqb_refl, IH. reflexivity. Qed.

Lemma starts_with_true p s : starts_with p s = true -> exists r, s = p ++ r.
Proof.
  revert s. induction p as [|c p IH]; intros s H.
  - exists s. reflexivity.
  - destruct s as [|d s]; [discriminate|]. cbn [starts_with] in H. apply andb_true_iff in H. destruct H as [H1 H2].
    apply N.eqb_eq in H1. subst d. destruct (IH s H2) as [r ->]. exists r. reflexivity.
Qed.

Lemma starts_with_iff p s : starts_with p s = true <-> exists r, s = p ++ r.
Proof. split; [apply starts_with_true|]. intros [r ->]. apply starts_with_app. Qed.

(* the prefix test only looks at the first [length p] characters *)
Lemma starts_with_app_long p s r : (length p <= length s)%nat -> starts_with p (s ++ r) = starts_with p s.
Proof.
  revert s. induction p as [|c p IH]; intros s Hl; [reflexivity|].
  destruct s as [|d s]; [cbn in Hl; lia|]. cbn [app starts_with]. rewrite IH; [reflexivity|cbn in Hl; lia].
Qed.

Lemma strip_prefix_app p s : strip_prefix p (p ++ s) = Some s.
Proof. induction p as [|c p IH]; [reflexivity|]. cbn [app strip_prefix]. rewrite N.eqb_refl. exact IH. Qed.

Lemma strip_prefix_some p s r : strip_prefix p s = Some r -> s = p ++ r.
Proof.
  revert s. induction p as [|c p IH]; intros s H.
  - cbn in H. injection H as ->. reflexivity.
  - destruct s as [|d s]; [discriminate|]. cbn [strip_prefix] in H. destruct (N.eqb c d) eqn:E; [|discriminate].
    apply N.eqb_eq in E. subst d. rewrite (IH s H). reflexivity.
Qed.

Lemma strip_prefix_none p s : strip_prefix p s = None -> forall r, s <> p ++ r.
Proof. intros H r ->. rewrite strip_prefix_app in H. discriminate. Qed.

(* ---------------------------------------------------------------- find *)

Lemma find_app_here p s : find p (p ++ s) = Some O.
Proof. destruct p as [|c p]; [destruct s; reflexivity|]. cbn [app find]. 
  change (starts_with (c :: p) (c :: p ++ s)) with (starts_with (c :: p) ((c :: p) ++ s)). rewrite starts_with_app. reflexivity. Qed.

Lemma find_unfold p s :
  find p s = if starts_with p s then Some O else match s with [] => None | _ :: t => option_map S (find p t) end.
Proof. destruct s; reflexivity. Qed.

(* find returns an occurrence ... *)
Lemma find_some p s i : find p s = Some i -> s = firstn i s ++ p ++ skipn (i + length p) s.
Proof.
  revert i. induction s as [|c s IH]; intros i H; rewrite find_unfold in H.
  - destruct (starts_with p []) eqn:E; [|discriminate]. injection H as <-.
    apply starts_with_true in E. destruct E as [r E]. destruct p; [|discriminate]. reflexivity.
  - destruct (starts_with p (c :: s)) eqn:E.
    + injection H as <-. apply starts_with_true in E. destruct E as [r E]. cbn [firstn app plus]. rewrite E at 1.
      f_equal. rewrite E. clear. induction p as [|x p IH]; [reflexivity|]. cbn [length app skipn]. exact IH.
    + destruct (find p s) as [j|] eqn:F; [|discriminate]. cbn in H. injection H as <-.
      cbn [firstn app plus skipn]. f_equal. apply IH. reflexivity.
Qed.

Lemma starts_with_len p s : starts_with p s = true -> (length p <= length s)%nat.
Proof. intros H. apply starts_with_true in H. destruct H as [r ->]. rewrite app_length. lia. Qed.

Lemma find_some_len p s i : find p s = Some i -> (i + length p <= length s)%nat.
Proof.
  revert i. induction s as [|c s IH]; intros i H; rewrite find_unfold in H.
  - destruct (starts_with p []) eqn:E; [|discriminate]. injection H as <-. apply starts_with_len in E. lia.
  - destruct (starts_with p (c :: s)) eqn:E.
    + injection H as <-. apply starts_with_len in E. lia.
    + destruct (find p s) as [j|] eqn:F; [|discriminate]. cbn in H. injection H as <-.
      specialize (IH j eq_refl). cbn [length]. lia.
Qed.

(* ... and the leftmost one *)
Lemma find_least p a b : exists i, find p (a ++ p ++ b) = Some i /\ (i <= length a)%nat.
Proof.
  induction a as [|c a IH].
  - exists O. cbn [app]. rewrite find_app_here. split; [reflexivity|cbn; lia].
  - destruct IH as [i [Hi Hle]]. rewrite find_unfold. cbn [app].
    destruct (starts_with p (c :: a ++ p ++ b)).
    + exists O. split; [reflexivity|lia].
    + rewrite Hi. exists (S i). split; [reflexivity|cbn; lia].
Qed.

Lemma find_none p s : find p s = None -> forall a b, s <> a ++ p ++ b.
Proof. intros H a b ->. destruct (find_least p a b) as [i [Hi _]]. congruence. Qed.

Lemma find_min p a b i : find p (a ++ p ++ b) = Some i -> (i <= length a)%nat.
Proof. intros H. destruct (find_least p a b) as [j [Hj Hle]]. congruence. Qed.

(* if the first occurrence in f ++ p is the final one, then it is also the first one in f ++ p ++ r *)
Lemma find_exact_extend p f r : find p (f ++ p) = Some (length f) -> find p (f ++ p ++ r) = Some (length f).
Proof.
  induction f as [|c f IH]; intros H.
  - cbn [app length]. apply find_app_here.
  - rewrite find_unfold in H. cbn [app] in H. rewrite find_unfold. cbn [app].
    destruct (starts_with p (c :: f ++ p)) eqn:E; [discriminate|].
    replace (c :: f ++ p ++ r) with ((c :: f ++ p) ++ r) by (cbn [app]; rewrite <- app_assoc; reflexivity).
    rewrite starts_with_app_long by (cbn [length]; rewrite app_length; lia). rewrite E.
    destruct (find p (f ++ p)) as [j|] eqn:F; [|discriminate]. cbn in H. injection H as ->.
    rewrite IH by reflexivity. reflexivity.
Qed.

(* the prefix before the first occurrence runs exactly to it *)
Lemma find_prefix_exact p s i : find p s = Some i -> find p (firstn i s ++ p) = Some (length (firstn i s)).
Proof.
  revert i. induction s as [|c s IH]; intros i H; rewrite find_unfold in H.
  - destruct (starts_with p []) eqn:E; [|discriminate]. injection H as <-. cbn [firstn app length]. 
    rewrite <- (app_nil_r p) at 2. apply find_app_here.
  - destruct (starts_with p (c :: s)) eqn:E.
    + injection H as <-. cbn [firstn app length]. rewrite <- (app_nil_r p) at 2. apply find_app_here.
    + destruct (find p s) as [j|] eqn:F; [|discriminate]. cbn in H. injection H as <-.
      cbn [firstn app length]. rewrite find_unfold.
      assert (starts_with p (c :: firstn j s ++ p) = false) as E2.
      { pose proof (find_some _ _ _ F) as Hs. pose proof (find_some_len _ _ _ F) as Hl.
        rewrite Hs in E. 
        replace (c :: firstn j s ++ p ++ skipn (j + length p) s) with ((c :: firstn j s ++ p) ++ skipn (j + length p) s) in E
          by (cbn [app]; rewrite <- app_assoc; reflexivity).
        rewrite starts_with_app_long in E; [exact E|]. cbn [length]. rewrite app_length. lia. }
      rewrite E2. rewrite (IH j eq_refl). reflexivity.
Qed.

Lemma find_firstn_len p s i : find p s = Some i -> length (firstn i s) = i.
Proof. intros H. apply find_some_len in H. apply firstn_length_le. lia. Qed.

Lemma contains_false_none p s : contains p s = false -> find p s = None.
Proof. unfold contains. destruct (find p s); [discriminate|reflexivity]. Qed.

Lemma contains_true_occ p s : contains p s = true -> exists a b, s = a ++ p ++ b.
Proof.
  unfold contains. destruct (find p s) as [i|] eqn:F; [|discriminate]. intros _.
  exists (firstn i s), (skipn (i + length p) s). apply find_some. exact F.
Qed.

Lemma occ_contains p a b : contains p (a ++ p ++ b) = true.
Proof. unfold contains. destruct (find_least p a b) as [i [-> _]]. reflexivity. Qed.

(* ---------------------------------------------------------------- join *)

Lemma join_cons d f fs : fs <> [] -> join d (f :: fs) = f ++ d ++ join d fs.
Proof. destruct fs; [congruence|reflexivity]. Qed.

(* ---------------------------------------------------------------- split *)

Lemma split_fuel_enough d : d <> [] -> forall f1 f2 s, (length s < f1)%nat -> (length s < f2)%nat ->
  split_fuel f1 d s = split_fuel f2 d s.
Proof.
  intros Hd. induction f1 as [|f1 IH]; intros f2 s H1 H2; [lia|].
  destruct f2 as [|f2]; [lia|]. cbn [split_fuel].
  destruct (find d s) as [i|] eqn:F; [|reflexivity].
  f_equal. pose proof (find_some_len _ _ _ F) as Hl.
  assert (length d > 0)%nat by (destruct d; [congruence|cbn; lia]).
  apply IH; rewrite skipn_length; lia.
Qed.

Lemma split_fuel_S f d s :
  split_fuel (S f) d s = match find d s with
                         | None => [s]
                         | Some i => firstn i s :: split_fuel f d (skipn (i + length d) s)
                         end.
Proof. reflexivity. Qed.

Lemma split_none d s : find d s = None -> split d s = [s].
Proof. intros F. unfold split. rewrite split_fuel_S, F. reflexivity. Qed.

Lemma split_some d s i : d <> [] -> find d s = Some i ->
  split d s = firstn i s :: split d (skipn (i + length d) s).
Proof.
  intros Hd F. unfold split. rewrite split_fuel_S, F. f_equal.
  pose proof (find_some_len _ _ _ F) as Hl.
  assert (length d > 0)%nat by (destruct d; [congruence|cbn; lia]).
  apply split_fuel_enough; [assumption| |]; rewrite skipn_length; lia.
Qed.

Lemma firstn_app_exact {T} (a b : list T) : firstn (length a) (a ++ b) = a.
Proof. rewrite firstn_app, Nat.sub_diag, firstn_all. cbn. apply app_nil_r. Qed.

Lemma skipn_app_exact {T} (a b : list T) : skipn (length a) (a ++ b) = b.
Proof. rewrite skipn_app, Nat.sub_diag, skipn_all. reflexivity. Qed.

Lemma skipn_app_exact2 {T} (a b c : list T) : skipn (length a + length b) (a ++ b ++ c) = c.
Proof. rewrite app_assoc, <- app_length. apply skipn_app_exact. Qed.

(* splitting f ++ d ++ rest when f runs exactly to the delimiter *)
Lemma split_exact d f rest : d <> [] -> find d (f ++ d) = Some (length f) ->
  split d (f ++ d ++ rest) = f :: split d rest.
Proof.
  intros Hd F. rewrite (split_some d _ (length f) Hd (find_exact_extend d f rest F)).
  rewrite firstn_app_exact, skipn_app_exact2. reflexivity.
Qed.

Lemma split_nonempty d s : split d s <> [].
Proof. unfold split. rewrite split_fuel_S. destruct (find d s); discriminate. Qed.

Lemma split_join d : d <> [] -> forall s, join d (split d s) = s.
Proof.
  intros Hd s. remember (length s) as n eqn:Hn. revert s Hn.
  induction n as [n IH] using lt_wf_ind. intros s Hn.
  destruct (find d s) as [i|] eqn:F.
  - rewrite (split_some d s i Hd F).
    pose proof (find_some_len _ _ _ F) as Hl.
    assert (length d > 0)%nat by (destruct d; [congruence|cbn; lia]).
    rewrite join_cons.
    + rewrite (IH (length (skipn (i + length d) s))); [symmetry; apply find_some; exact F| |reflexivity].
      rewrite skipn_length. lia.
    + apply split_nonempty.
  - rewrite (split_none d s F). reflexivity.
Qed.

(* no field of a split contains the delimiter *)
Lemma split_fields_clean d : d <> [] -> forall s, Forall (fun f => contains d f = false) (split d s).
Proof.
  intros Hd s. remember (length s) as n eqn:Hn. revert s Hn.
  induction n as [n IH] using lt_wf_ind. intros s Hn.
  destruct (find d s) as [i|] eqn:F.
  - rewrite (split_some d s i Hd F).
    pose proof (find_some_len _ _ _ F) as Hl.
    assert (length d > 0)%nat by (destruct d; [congruence|cbn; lia]).
    constructor.
    + destruct (contains d (firstn i s)) eqn:C; [|reflexivity]. exfalso.
      apply contains_true_occ in C. destruct C as [a [b E]].
      pose proof (find_some _ _ _ F) as Hs. rewrite E in Hs. rewrite Hs in F.
      rewrite <- !app_assoc in F. apply find_min in F.
      assert (length (firstn i s) = i) as Hi by (apply firstn_length_le; lia).
      rewrite E in Hi. rewrite !app_length in Hi. lia.
    + apply (IH (length (skipn (i + length d) s))); [|reflexivity]. rewrite skipn_length. lia.
  - rewrite (split_none d s F). constructor; [|constructor]. unfold contains. rewrite F. reflexivity.
Qed.

(* ---------------------------------------------------------------- count *)

Lemma count_fuel_S f d s :
  count_fuel (S f) d s = match find d s with
                         | None => O
                         | Some i => S (count_fuel f d (skipn (i + length d) s))
                         end.
Proof. reflexivity. Qed.

Lemma count_fuel_enough d : d <> [] -> forall f1 f2 s, (length s < f1)%nat -> (length s < f2)%nat ->
  count_fuel f1 d s = count_fuel f2 d s.
Proof.
  intros Hd. induction f1 as [|f1 IH]; intros f2 s H1 H2; [lia|].
  destruct f2 as [|f2]; [lia|]. rewrite !count_fuel_S.
  destruct (find d s) as [i|] eqn:F; [|reflexivity].
  f_equal. pose proof (find_some_len _ _ _ F) as Hl.
  assert (length d > 0)%nat by (destruct d; [congruence|cbn; lia]).
  apply IH; rewrite skipn_length; lia.
Qed.

Lemma count_none d s : find d s = None -> count d s = O.
Proof. intros F. unfold count. rewrite count_fuel_S, F. reflexivity. Qed.

Lemma count_some d s i : d <> [] -> find d s = Some i -> count d s = S (count d (skipn (i + length d) s)).
Proof.
  intros Hd F. unfold count. rewrite count_fuel_S, F. f_equal.
  pose proof (find_some_len _ _ _ F) as Hl.
  assert (length d > 0)%nat by (destruct d; [congruence|cbn; lia]).
  apply count_fuel_enough; [assumption| |]; rewrite skipn_length; lia.
Qed.
