(* Utf8.v — model of UTF-8 decoding as rbql-js uses it:
     stream path : new util.TextDecoder('utf-8', {fatal: true, ignoreBOM: true}); decoder.decode(chunk, {stream: true})
                   per chunk; decoder.decode() (flush) at the end of the stream;
     bulk path   : data_blob.toString('utf-8') accepted only when re-encoding gives the same bytes back
                   (i.e. only when the input is valid UTF-8).
   The decoder is the WHATWG "UTF-8 decode" state machine: the bytes of an incomplete sequence seen so far
   are carried between chunks as (bytes still needed, code point bits so far, bounds for the next byte);
   the bounds implement the overlong / surrogate / > U+10FFFF exclusions. fatal: an invalid byte is an
   error (TypeError); ignoreBOM: a leading U+FEFF is delivered like any other character.
   The bit operations of the standard's wording are written arithmetically: for a lead byte b of an n-byte sequence
   b & mask = b - (the lead's fixed high bits), for a continuation byte b & 0x3F = b - 128, (cp << 6) | x = cp * 64 + x.
   Also: the encoder, the sequence length of a lead byte and a declarative whole-input decoder by sequences.
   NO proofs here (Utf8_Proofs.v). *)
From RBQL Require Import Base.

Definition byte := N.
Definition bytes := list byte.

(* utf8 sequence length announced by a lead byte (0 = not a lead byte) *)
Definition utf8_len (b : byte) : nat :=
  if (b <=? 127)%N then 1
  else if (194 <=? b)%N && (b <=? 223)%N then 2
  else if (224 <=? b)%N && (b <=? 239)%N then 3
  else if (240 <=? b)%N && (b <=? 244)%N then 4
  else 0.

(* decoder state between two bytes: [d_needed] continuation bytes still expected (0 = between characters) *)
Record dstate := {
  d_needed : nat;
  d_cp : N;          (* code point bits collected so far *)
  d_lower : N;       (* the next byte must lie in [d_lower, d_upper] *)
  d_upper : N
}.

Definition d_init : dstate := {| d_needed := 0; d_cp := 0; d_lower := 128; d_upper := 191 |}.

(* one byte; None = decoding error (fatal) *)
Definition decode_byte (st : dstate) (b : byte) : option (option ch * dstate) :=
  match d_needed st with
  | O =>
      match utf8_len b with
      | 1%nat => Some (Some b, d_init)
      | 2%nat => Some (None, {| d_needed := 1; d_cp := (b - 192)%N; d_lower := 128; d_upper := 191 |})
      | 3%nat => Some (None, {| d_needed := 2; d_cp := (b - 224)%N;
                                 d_lower := if N.eqb b 224 then 160 else 128;
                                 d_upper := if N.eqb b 237 then 159 else 191 |})
      | 4%nat => Some (None, {| d_needed := 3; d_cp := (b - 240)%N;
                                 d_lower := if N.eqb b 240 then 144 else 128;
                                 d_upper := if N.eqb b 244 then 143 else 191 |})
      | _ => None
      end
  | S k =>
      if (d_lower st <=? b)%N && (b <=? d_upper st)%N then
        let cp := (d_cp st * 64 + (b - 128))%N in
        match k with
        | O => Some (Some cp, d_init)
        | _ => Some (None, {| d_needed := k; d_cp := cp; d_lower := 128; d_upper := 191 |})
        end
      else None
  end.

(* decoder.decode(chunk, {stream: true}) *)
Fixpoint decode_chunk (st : dstate) (bs : bytes) : option (str * dstate) :=
  match bs with
  | [] => Some ([], st)
  | b :: r =>
      match decode_byte st b with
      | None => None
      | Some (o, st1) =>
          match decode_chunk st1 r with
          | None => None
          | Some (s, st2) => Some (match o with Some c => c :: s | None => s end, st2)
          end
      end
  end.

(* decoder.decode() at the end: fails inside a multi-byte character *)
Definition decode_flush (st : dstate) : bool := Nat.eqb (d_needed st) 0.

(* the whole stream: the decoded text of every chunk, or None if any decode call (or the flush) throws *)
Fixpoint decode_streaming_from (st : dstate) (chunks : list bytes) : option (list str) :=
  match chunks with
  | [] => if decode_flush st then Some [] else None
  | c :: r =>
      match decode_chunk st c with
      | None => None
      | Some (s, st1) =>
          match decode_streaming_from st1 r with
          | None => None
          | Some l => Some (s :: l)
          end
      end
  end.
Definition decode_streaming (chunks : list bytes) : option (list str) := decode_streaming_from d_init chunks.

(* the whole input at once (strict): what the bulk path accepts *)
Definition decode_whole (bs : bytes) : option str :=
  match decode_chunk d_init bs with
  | Some (s, st) => if decode_flush st then Some s else None
  | None => None
  end.

Definition valid_utf8 (bs : bytes) : Prop := exists s, decode_whole bs = Some s.

(* what `decoder.decode(chunk)` WITHOUT {stream: true} did before the fix 016360d: every chunk on its own *)
Fixpoint decode_each_chunk (chunks : list bytes) : option (list str) :=
  match chunks with
  | [] => Some []
  | c :: r => match decode_whole c, decode_each_chunk r with
              | Some s, Some l => Some (s :: l)
              | _, _ => None
              end
  end.

(* ------------------------------------------------------------------ encoder and a declarative decoder *)

Definition is_scalar (c : ch) : bool := ((c <? 55296) || (57343 <? c))%N && (c <=? 1114111)%N.

Definition utf8_encode_char (c : ch) : bytes :=
  if (c <? 128)%N then [c]
  else if (c <? 2048)%N then [192 + c / 64; 128 + c mod 64]%N
  else if (c <? 65536)%N then [224 + c / 4096; 128 + (c / 64) mod 64; 128 + c mod 64]%N
  else [240 + c / 262144; 128 + (c / 4096) mod 64; 128 + (c / 64) mod 64; 128 + c mod 64]%N.

Definition utf8_encode (s : str) : bytes := flat_map utf8_encode_char s.

Definition is_cont (b : byte) : bool := (128 <=? b)%N && (b <=? 191)%N.

(* sequence-by-sequence decoder (the shape suggested by RFC 3629's grammar): lead byte -> length -> check *)
Fixpoint decode_seq (fuel : nat) (bs : bytes) : option str :=
  match fuel with
  | O => None
  | S f =>
      match bs with
      | [] => Some []
      | b0 :: r =>
          match utf8_len b0, r with
          | 1%nat, _ => option_map (cons b0) (decode_seq f r)
          | 2%nat, b1 :: r' =>
              if is_cont b1 then option_map (cons ((b0 - 192) * 64 + (b1 - 128))%N) (decode_seq f r') else None
          | 3%nat, b1 :: b2 :: r' =>
              if ((if N.eqb b0 224 then 160 else 128) <=? b1)%N && (b1 <=? (if N.eqb b0 237 then 159 else 191))%N && is_cont b2
              then option_map (cons (((b0 - 224) * 64 + (b1 - 128)) * 64 + (b2 - 128))%N) (decode_seq f r')
              else None
          | 4%nat, b1 :: b2 :: b3 :: r' =>
              if ((if N.eqb b0 240 then 144 else 128) <=? b1)%N && (b1 <=? (if N.eqb b0 244 then 143 else 191))%N && is_cont b2 && is_cont b3
              then option_map (cons ((((b0 - 240) * 64 + (b1 - 128)) * 64 + (b2 - 128)) * 64 + (b3 - 128))%N)
                              (decode_seq f r')
              else None
          | _, _ => None
          end
      end
  end.

(* latin-1 / 'binary': every byte is one character *)
Definition decode_latin1 (bs : bytes) : str := bs.
