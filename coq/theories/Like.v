(* Like.v — model of rbql_engine.like_to_regex / LIKE (Python) and rbql.js like_to_regex / like (JS).
   The regex engines are not modelled: the pattern produced by like_to_regex is represented by
   its token list (escaped literal run | '.' | '.*') and matched by the backtracking matcher
   below ('.' excludes LF in Python; LF, CR, U+2028, U+2029 in JS; '^...$' under re.match
   accepts one final LF in Python). *)
From RBQL Require Import Base.

Inductive rtok := RLit (s : str) | RDot | RStar.

(* like_to_regex: the index loop of the source; [run] is pattern[p:i] reversed *)
Fixpoint l2r (pat : str) (run : str) : list rtok :=
  match pat with
  | [] => [RLit (rev run)]
  | c :: t =>
      if N.eqb c UND then RLit (rev run) :: RDot :: l2r t []
      else if N.eqb c PCT then RLit (rev run) :: RStar :: l2r t []
      else l2r t (c :: run)
  end.
Definition like_to_regex (pat : str) : list rtok := l2r pat [].

Inductive flavour := Py | Js.

Definition dot_ok (fl : flavour) (c : ch) : bool :=
  match fl with
  | Py => negb (N.eqb c LF)
  | Js => negb (N.eqb c LF || N.eqb c CR || N.eqb c 8232 || N.eqb c 8233)
  end.

(* '$' : Python's re '$' matches at the end and before a final LF; JS '$' (no m flag) only at the end *)
Definition at_end (fl : flavour) (t : str) : bool :=
  match fl, t with
  | _, [] => true
  | Py, [c] => N.eqb c LF
  | _, _ => false
  end.

Fixpoint rmatch (fl : flavour) (r : list rtok) (t : str) : bool :=
  match r with
  | [] => at_end fl t
  | RLit s :: r' => match strip_prefix s t with Some t' => rmatch fl r' t' | None => false end
  | RDot :: r' => match t with c :: t' => dot_ok fl c && rmatch fl r' t' | [] => false end
  | RStar :: r' =>
      (fix star (t : str) : bool :=
         rmatch fl r' t || match t with c :: t' => dot_ok fl c && star t' | [] => false end) t
  end.

Definition like (fl : flavour) (text pat : str) : bool := rmatch fl (like_to_regex pat) text.

(* the per-query compiled-regex cache: pattern -> token list *)
Definition cache := list (str * list rtok).
Fixpoint cache_get (c : cache) (p : str) : option (list rtok) :=
  match c with [] => None | (k, v) :: r => if str_eqb k p then Some v else cache_get r p end.
Definition like_cached (fl : flavour) (c : cache) (text pat : str) : bool * cache :=
  match cache_get c pat with
  | Some m => (rmatch fl m text, c)
  | None => let m := like_to_regex pat in (rmatch fl m text, (pat, m) :: c)
  end.
(* a whole column of LIKE calls sharing one cache, as one query does *)
Fixpoint like_seq (fl : flavour) (c : cache) (calls : list (str * str)) : list bool :=
  match calls with
  | [] => []
  | (t, p) :: r => let '(b, c') := like_cached fl c t p in b :: like_seq fl c' r
  end.

(* Specification: SQL LIKE *)
Inductive SqlLike : str -> str -> Prop :=
| SL_nil : SqlLike [] []
| SL_lit c t p : c <> PCT -> c <> UND -> SqlLike t p -> SqlLike (c :: t) (c :: p)
| SL_one c t p : SqlLike t p -> SqlLike (c :: t) (UND :: p)
| SL_skip t p : SqlLike t p -> SqlLike t (PCT :: p)
| SL_eat c t p : SqlLike t (PCT :: p) -> SqlLike (c :: t) (PCT :: p).

(* single-line text for a flavour: every character is one '.' matches *)
Definition single_line (fl : flavour) (t : str) : Prop := forall c, In c t -> dot_ok fl c = true.
