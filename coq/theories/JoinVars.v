(* JoinVars.v — rbql_engine.resolve_join_variables (Python) / rbql.js resolve_join_variables, as after fix b7edec2:
   which side of every ON pair is the input table's and which the join table's, and the key component each denotes.
   The names are looked up in the two variable maps of ParserVars.v; the record-number names are not map entries.
   (The string literals of the pair are combined back before the lookup; here the pair texts are given combined.) *)
From RBQL Require Import Base Parser ParserVars.
From Coq Require String.
Import String.StringSyntax.

Definition S_adotNR : str := Eval vm_compute in $"a.NR".
Definition S_bdotNR : str := Eval vm_compute in $"b.NR".

Definition is_a_nr (v : str) : bool := str_eqb v S_NR || str_eqb v S_adotNR || str_eqb v S_aNR.
Definition is_b_nr (v : str) : bool := str_eqb v S_bNR || str_eqb v S_bdotNR.
Definition in_map (v : str) (m : vmap) : bool := match map_get v m with Some _ => true | None => false end.

Inductive jerr := J_ambiguous (v : str) | J_no_input_field (v : str) | J_no_join_field (v : str).
Inductive jres (T : Type) := JOk (x : T) | JErr (e : jerr).
Arguments JOk {T} x.
Arguments JErr {T} e.

(* key component: None = the record number (index -1), Some i = field i *)
Definition resolve_pair (im jm : vmap) (v1 v2 : str) : jres (option N * option N) :=
  if in_map v1 im && in_map v1 jm then JErr (J_ambiguous v1)
  else if in_map v2 im && in_map v2 jm then JErr (J_ambiguous v2)
  else
    let '(x, y) := if in_map v2 im || is_a_nr v2 then (v2, v1) else (v1, v2) in
    match (if is_a_nr x then Some None else option_map (fun i => Some (snd i)) (map_get x im)) with
    | None => JErr (J_no_input_field x)
    | Some l =>
        match (if is_b_nr y then Some None else option_map (fun i => Some (snd i)) (map_get y jm)) with
        | None => JErr (J_no_join_field y)
        | Some r => JOk (l, r)
        end
    end.

Fixpoint resolve_join_variables (im jm : vmap) (pairs : list (str * str)) : jres (list (option N) * list (option N)) :=
  match pairs with
  | [] => JOk ([], [])
  | (v1, v2) :: t =>
      match resolve_pair im jm v1 v2 with
      | JErr e => JErr e
      | JOk (l, r) =>
          match resolve_join_variables im jm t with
          | JErr e => JErr e
          | JOk (ls, rs) => JOk (l :: ls, r :: rs)
          end
      end
  end.
