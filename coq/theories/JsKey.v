(* JsKey.v - the JSON text by which rbql-js identifies records and keys (model, no proofs).
   rbql-js/rbql.js uses JSON.stringify(array) as the identity of
     a record under DISTINCT            UniqWriter.write        this.seen  (a Set of texts)
     a record under DISTINCT COUNT      UniqCountWriter.write   this.records (a Map keyed by texts)
     a GROUP BY key                     select_aggregated       key = JSON.stringify(key)
     a JOIN key of several columns      HashJoinMap.polymorphic_get_key / lhs_join_var_expression
   while the reference semantics (and rbql-py) identify them by tuple equality.  JsKey_Proofs.v shows that on the values
   a key can hold when nothing went wrong (null, booleans, integer numbers, strings, arrays of these) the text determines
   the value, and that it does not once NaN / undefined / an infinity is a component (all three print as null).

   [js_stringify] follows ECMA-262 (2019 and later: well-formed JSON.stringify) SerializeJSONProperty / QuoteJSONString /
   SerializeJSONArray with no indent, on the code units of the result:
     null, true, false; an integer number in decimal with a leading - when negative (Number::toString of an integer of
     magnitude below 10^21; -0, which prints as 0, is not a separate inhabitant: JInt 0 only);
     a string between double quotes with  "  ->  \"   \  ->  \\   U+0008 \b  U+0009 \t  U+000A \n  U+000C \f  U+000D \r,
     any other code unit below U+0020 -> \u00xx, a LONE surrogate (a high one not followed by a low one, a low one not
     preceded by a high one) -> \udxxx, both in lower-case hexadecimal, every other code unit (U+007F, U+2028, paired
     surrogates included) as it is;
     an array as [e1,e2,...] without blanks, where undefined (and functions, symbols) print as null;
     NaN and the infinities print as null everywhere.
   JUndef at the ROOT is outside the model (JSON.stringify(undefined) is undefined, not a text); the engine only stringifies arrays.
   A string is the list of its UTF-16 code units (each below 65536). *)
From RBQL Require Import Base Parser.
Local Open Scope N_scope.

Inductive jv : Type :=
  | JNull
  | JBool (b : bool)
  | JInt (z : Z)
  | JStr (s : list N)
  | JArr (l : list jv)
  | JNaN | JUndef | JInf.      (* the components that are NOT identified by their text *)

Definition hex_digit (k : N) : N := if N.ltb k 10 then 48 + k else 87 + k.        (* 0-9 a-f *)
(* \uxxxx, four lower-case hexadecimal digits (UnicodeEscape) *)
Definition uesc (c : N) : list N :=
  [92; 117; hex_digit (c / 4096); hex_digit ((c / 256) mod 16); hex_digit ((c / 16) mod 16); hex_digit (c mod 16)].

Definition is_high (c : N) : bool := N.leb 55296 c && N.leb c 56319.     (* U+D800..U+DBFF *)
Definition is_low (c : N) : bool := N.leb 56320 c && N.leb c 57343.      (* U+DC00..U+DFFF *)

(* a code unit that is not a surrogate *)
Definition quote_unit (c : N) : list N :=
  if N.eqb c 8 then [92; 98]
  else if N.eqb c 9 then [92; 116]
  else if N.eqb c 10 then [92; 110]
  else if N.eqb c 12 then [92; 102]
  else if N.eqb c 13 then [92; 114]
  else if N.eqb c 34 then [92; 34]
  else if N.eqb c 92 then [92; 92]
  else if N.ltb c 32 then uesc c
  else [c].

(* QuoteJSONString iterates over the CODE POINTS of the string: a high surrogate immediately followed by a low one is one
   code point and is copied, any other surrogate code unit is a code point of its own and is escaped *)
Fixpoint quote_body (s : list N) : list N :=
  match s with
  | [] => []
  | c :: t =>
      if is_high c then
        match t with
        | d :: t' => if is_low d then c :: d :: quote_body t' else uesc c ++ quote_body t
        | [] => uesc c
        end
      else if is_low c then uesc c ++ quote_body t
      else quote_unit c ++ quote_body t
  end.

Definition quote_json (s : list N) : list N := 34 :: quote_body s ++ [34].

Definition T_NULL : list N := [110; 117; 108; 108].
Definition T_TRUE : list N := [116; 114; 117; 101].
Definition T_FALSE : list N := [102; 97; 108; 115; 101].

Definition int_text (z : Z) : list N :=
  match z with
  | Z0 => [48]
  | Zpos p => dec_of_N (Npos p)
  | Zneg p => 45 :: dec_of_N (Npos p)
  end.

(* "[" + texts.join(",") + "]" *)
Definition array_text (texts : list (list N)) : list N := 91 :: join [44] texts ++ [93].

Fixpoint js_stringify (v : jv) : list N :=
  match v with
  | JNull => T_NULL
  | JBool true => T_TRUE
  | JBool false => T_FALSE
  | JInt z => int_text z
  | JStr s => quote_json s
  | JArr l => array_text (map js_stringify l)
  | JNaN | JUndef | JInf => T_NULL
  end.

(* the values whose text identifies them: no NaN / undefined / infinity anywhere, strings made of code units *)
Fixpoint faithful (v : jv) : bool :=
  match v with
  | JNull | JBool _ | JInt _ => true
  | JStr s => forallb (fun c => N.ltb c 65536) s
  | JArr l => forallb faithful l
  | JNaN | JUndef | JInf => false
  end.

(* the key of a record / of a list of key components, as the engine computes it *)
Definition js_key (record : list jv) : list N := js_stringify (JArr record).

(* ------------------------------------------------------------------ reading a quoted string back (JSON.parse on a string
   token; used by the proofs as the left inverse of quote_body) *)
Definition hex_val (c : N) : option N :=
  if N.leb 48 c && N.leb c 57 then Some (c - 48)
  else if N.leb 97 c && N.leb c 102 then Some (c - 87)
  else None.

Definition unesc1 (e : N) : option N :=
  if N.eqb e 98 then Some 8 else if N.eqb e 116 then Some 9 else if N.eqb e 110 then Some 10
  else if N.eqb e 102 then Some 12 else if N.eqb e 114 then Some 13 else if N.eqb e 34 then Some 34
  else if N.eqb e 92 then Some 92 else if N.eqb e 47 then Some 47 else None.

(* the text after the opening quote -> (code units of the string, text after the closing quote) *)
Fixpoint unquote_body (t : list N) : option (list N * list N) :=
  match t with
  | [] => None
  | c :: r =>
      if N.eqb c 34 then Some ([], r)
      else if N.eqb c 92 then
        match r with
        | [] => None
        | e :: r1 =>
            if N.eqb e 117 then
              match r1 with
              | h3 :: h2 :: h1 :: h0 :: r2 =>
                  match hex_val h3, hex_val h2, hex_val h1, hex_val h0, unquote_body r2 with
                  | Some a, Some b, Some x, Some d, Some (s, rest) => Some ((((a * 16 + b) * 16 + x) * 16 + d) :: s, rest)
                  | _, _, _, _, _ => None
                  end
              | _ => None
              end
            else
              match unesc1 e, unquote_body r1 with
              | Some u, Some (s, rest) => Some (u :: s, rest)
              | _, _ => None
              end
        end
      else
        match unquote_body r with
        | Some (s, rest) => Some (c :: s, rest)
        | None => None
        end
  end.
