(* VarSpelling_Proofs.v — lemmas about VarSpelling.v (C08, variable level).
   var_index              : a token aN / a[N] at a token boundary of the query text is bound to field N-1 (both flavours)
   aN_bracket_equiv       : both spellings of one field variable denote the same EFld node, hence the same value
   leading_zero / a0      : a0, a01, a[0], a[01] are never matched by the scanners
   var_only_if_occurs     : a name is in the map ONLY if its token occurs at a boundary
   record_number_spellings: NR / aNR / a.NR and bNR / b.NR
   The search lemma (find_all_from_reach) says that the left-to-right non-overlapping scan cannot jump over a position
   that no match can contain as an inner position. *)
From RBQL Require Import Base Value Like Expr Parser Parser_Combine_Proofs ParserVars ParserVars_Proofs JoinVars VarSpelling.
Local Open Scope N_scope.

(* ------------------------------------------------------------------ small list facts *)
Lemma last_opt_snoc : forall {A} (l : list A) c, last_opt (l ++ [c]) = Some c.
Proof.
  intros A l c. induction l as [|x l IH]; [reflexivity|].
  cbn [app]. destruct (l ++ [c]) eqn:E; [destruct l; discriminate E|]. cbn [last_opt]. cbn [last_opt] in IH. exact IH.
Qed.

Lemma last_opt_some : forall {A} (l : list A) c, last_opt l = Some c -> exists u, l = u ++ [c].
Proof.
  intros A l. induction l as [|x l IH]; intros c H; [discriminate H|].
  destruct l as [|y l].
  - cbn [last_opt] in H. injection H as ->. exists []. reflexivity.
  - cbn [last_opt] in H. destruct (IH c H) as [u E]. exists (x :: u). cbn [app]. rewrite <- E. reflexivity.
Qed.

Lemma last_opt_cons_none : forall {A} (y : A) u, last_opt (y :: u) <> None.
Proof. intros A y u. revert y. induction u as [|z u IH]; intros y E; [discriminate E|]. exact (IH z E). Qed.

(* ------------------------------------------------------------------ the scan reaches every free position *)
Section Reach.
  Context {I : Type}.
  Variable m : option ch -> str -> option (nat * I).
  Variable P : str -> Prop.
  (* no match contains, at an inner position, a suffix with property P *)
  Hypothesis tail_ok : forall prev s n i k, m prev s = Some (n, i) -> (1 <= k < n)%nat -> ~ P (skipn k s).

  Definition prev_after (prev : option ch) (u : str) : option ch :=
    match last_opt u with Some c => Some c | None => prev end.

  Lemma find_all_from_reach : forall u prev pos skip w, P w -> (skip <= length u)%nat ->
    exists front, find_all_from m (u ++ w) prev pos skip
                  = front ++ find_all_from m w (prev_after prev u) (pos + length u)%nat 0.
  Proof.
    induction u as [|x u IH]; intros prev pos skip w Hw Hs.
    - cbn [length] in Hs. assert (skip = 0%nat) by lia. subst skip. exists []. cbn [app length]. unfold prev_after. cbn [last_opt].
      rewrite Nat.add_0_r. reflexivity.
    - assert (Hprev : prev_after prev (x :: u) = prev_after (Some x) u).
      { unfold prev_after. destruct u as [|y u]; [reflexivity|]. change (last_opt (x :: y :: u)) with (last_opt (y :: u)).
        destruct (last_opt (y :: u)) eqn:E; [reflexivity|]. exfalso. exact (last_opt_cons_none y u E). }
      rewrite Hprev. replace (pos + length (x :: u))%nat with (S pos + length u)%nat by (cbn [length]; lia).
      cbn [app find_all_from]. destruct skip as [|k].
      + destruct (m prev (x :: u ++ w)) as [[n i]|] eqn:Em.
        * assert (Hn : (n - 1 <= length u)%nat).
          { destruct (le_lt_dec (n - 1) (length u)) as [L|L]; [exact L|]. exfalso.
            apply (tail_ok prev (x :: u ++ w) n i (S (length u)) Em); [lia|].
            cbn [skipn]. rewrite skipn_app. rewrite skipn_all. rewrite Nat.sub_diag. cbn [skipn app]. exact Hw. }
          destruct (IH (Some x) (S pos) (n - 1)%nat w Hw Hn) as [front E]. rewrite E.
          exists ((pos, (pos + n)%nat, i) :: front). reflexivity.
        * apply IH; [exact Hw | lia].
      + apply IH; [exact Hw | cbn [length] in Hs; lia].
  Qed.
End Reach.

(* ------------------------------------------------------------------ decimal numerals *)
Lemma dec_of_N_digits' : forall n, Forall (fun c => 48 <= c <= 57) (dec_of_N n).
Proof. intro n. unfold dec_of_N. apply dec_fuel_digits. constructor. Qed.

Lemma dec_of_N_inj' : forall a b, dec_of_N a = dec_of_N b -> a = b.
Proof. intros a b E. apply (f_equal N_of_digits) in E. rewrite !dec_of_N_val in E. exact E. Qed.

Lemma dec_fuel_head19 : forall f n acc, 1 <= n -> n < 2 ^ N.of_nat f ->
  exists c t, dec_fuel f n acc = c :: t /\ 49 <= c <= 57.
Proof.
  induction f as [|f IH]; intros n acc H1 H2.
  - change (N.of_nat 0) with 0 in H2. rewrite N.pow_0_r in H2. lia.
  - cbn [dec_fuel]. destruct (N.ltb_spec n 10) as [L|L].
    + exists (n mod 10 + 48), acc. split; [reflexivity|]. rewrite (N.mod_small n 10 L). lia.
    + rewrite Nat2N.inj_succ, N.pow_succ_r' in H2. apply IH.
      * assert (10 * 1 <= n) by lia. apply N.div_le_lower_bound; lia.
      * apply N.div_lt_upper_bound; lia.
Qed.

Lemma dec_of_N_head19 : forall n, 1 <= n -> exists c t, dec_of_N n = c :: t /\ 49 <= c <= 57.
Proof.
  intros n H. unfold dec_of_N. apply dec_fuel_head19; [exact H|].
  rewrite Nat2N.inj_succ, N.pow_succ_r'. destruct n as [|p]; [lia|]. cbn [N.size_nat]. pose proof (pos_size_bound p). lia.
Qed.

Lemma digit_range : forall c, 48 <= c <= 57 -> is_digit c = true.
Proof. intros c H. unfold is_digit, in_range. apply andb_true_iff. split; apply N.leb_le; lia. Qed.

Lemma digit19_range : forall c, 49 <= c <= 57 -> is_digit19 c = true.
Proof. intros c H. unfold is_digit19, in_range. apply andb_true_iff. split; apply N.leb_le; lia. Qed.

Lemma is_digit_word : forall c, is_digit c = true -> is_word c = true.
Proof. intros c H. unfold is_word. rewrite H. rewrite orb_true_r. reflexivity. Qed.

Lemma digits_forallb : forall s, Forall (fun c => 48 <= c <= 57) s -> forallb is_digit s = true.
Proof. induction 1 as [|c s H _ IH]; [reflexivity|]. cbn [forallb]. rewrite (digit_range c H), IH. reflexivity. Qed.

(* the shape of the decimal text of n >= 1 *)
Lemma dec_shape : forall n, 1 <= n -> exists d ds, dec_of_N n = d :: ds /\ is_digit19 d = true /\ forallb is_digit ds = true.
Proof.
  intros n H. destruct (dec_of_N_head19 n H) as [d [ds [E R]]]. exists d, ds. split; [exact E|]. split; [apply digit19_range; exact R|].
  pose proof (dec_of_N_digits' n) as D. rewrite E in D. inversion D; subst. apply digits_forallb. assumption.
Qed.

Lemma span_by_stop' : forall f a b, forallb f a = true -> match b with [] => True | c :: _ => f c = false end ->
  span_by f (a ++ b) = (a, b).
Proof.
  intros f a b. induction a as [|x a IH]; intros Ha Hb.
  - cbn [app]. destruct b as [|c b]; [reflexivity|]. cbn [span_by]. rewrite Hb. reflexivity.
  - cbn [forallb] in Ha. apply andb_true_iff in Ha. destruct Ha as [Hx Ha]. cbn [app span_by]. rewrite Hx, (IH Ha Hb). reflexivity.
Qed.

Lemma span_by_spec : forall f s a b, span_by f s = (a, b) ->
  s = a ++ b /\ forallb f a = true /\ match b with [] => True | c :: _ => f c = false end.
Proof.
  intros f s. induction s as [|c s IH]; intros a b H.
  - cbn [span_by] in H. injection H as <- <-. repeat split.
  - cbn [span_by] in H. destruct (f c) eqn:Ec.
    + destruct (span_by f s) as [a' b'] eqn:E. injection H as <- <-. destruct (IH a' b' eq_refl) as [E1 [E2 E3]].
      split; [cbn [app]; rewrite <- E1; reflexivity|]. split; [cbn [forallb]; rewrite Ec, E2; reflexivity | exact E3].
    + injection H as <- <-. split; [reflexivity|]. split; [reflexivity | exact Ec].
Qed.

(* ------------------------------------------------------------------ the two scanners: what a match looks like *)
Definition is_prefix_ch (p : ch) : Prop := p = 97 \/ p = 98.
Lemma prefix_word : forall p, is_prefix_ch p -> is_word p = true.
Proof. intros p [->| ->]; reflexivity. Qed.
Lemma prefix_not_digit : forall p, is_prefix_ch p -> is_digit p = false.
Proof. intros p [->| ->]; reflexivity. Qed.

Lemma basic_body_shape : forall p s n i, basic_body p s = Some (n, i) ->
  exists d ds r2, s = p :: d :: ds ++ r2 /\ is_digit19 d = true /\ forallb is_digit ds = true /\ not_word_next r2 = true
                  /\ n = (2 + length ds)%nat /\ i = N_of_digits (d :: ds).
Proof.
  intros p s n i H. unfold basic_body in H. destruct s as [|p' [|d r]]; try discriminate H.
  destruct (N.eqb_spec p' p) as [->|Hp]; [|discriminate H]. cbn [andb] in H. destruct (is_digit19 d) eqn:Ed; [|discriminate H].
  destruct (span_by is_digit r) as [ds r2] eqn:Es. destruct (not_word_next r2) eqn:En; [|discriminate H]. injection H as <- <-.
  destruct (span_by_spec _ _ _ _ Es) as [E1 [E2 _]]. exists d, ds, r2. rewrite E1. repeat split; assumption.
Qed.

Lemma array_body_shape : forall p s n i, array_body p s = Some (n, i) ->
  exists d ds r3, s = p :: LBR :: d :: ds ++ RBR :: r3 /\ is_digit19 d = true /\ forallb is_digit ds = true
                  /\ n = (4 + length ds)%nat /\ i = N_of_digits (d :: ds).
Proof.
  intros p s n i H. unfold array_body in H. destruct s as [|p' [|b [|d r]]]; try discriminate H.
  destruct (N.eqb_spec p' p) as [->|Hp]; [|discriminate H]. destruct (N.eqb_spec b LBR) as [->|Hb]; [|discriminate H].
  cbn [andb] in H. destruct (is_digit19 d) eqn:Ed; [|discriminate H].
  destruct (span_by is_digit r) as [ds r2] eqn:Es. destruct r2 as [|e r3]; [discriminate H|].
  destruct (N.eqb_spec e RBR) as [->|He]; [|discriminate H]. injection H as <- <-.
  destruct (span_by_spec _ _ _ _ Es) as [E1 [E2 _]]. exists d, ds, r3. rewrite E1. repeat split; assumption.
Qed.

(* ctx_start: the match is the body at the very start of the text, or one non-word character followed by the body *)
Lemma ctx_start_cases : forall {I} (body : str -> option (nat * I)) prev s n i, ctx_start body prev s = Some (n, i) ->
  (prev = None /\ body s = Some (n, i)) \/
  (exists c t n', s = c :: t /\ is_word c = false /\ body t = Some (n', i) /\ n = S n').
Proof.
  intros I body prev s n i H. unfold ctx_start in H.
  destruct prev as [x|].
  - destruct s as [|c t]; [discriminate H|]. destruct (is_word c) eqn:Ec; [discriminate H|].
    destruct (body t) as [[n' i']|] eqn:Eb; [|discriminate H]. injection H as <- <-. right. exists c, t, n'. repeat split; assumption.
  - destruct (body s) as [[n0 i0]|] eqn:E0.
    + injection H as <- <-. left. split; reflexivity.
    + destruct s as [|c t]; [discriminate H|]. destruct (is_word c) eqn:Ec; [discriminate H|].
      destruct (body t) as [[n' i']|] eqn:Eb; [|discriminate H]. injection H as <- <-. right. exists c, t, n'. repeat split; assumption.
Qed.

Lemma skipn_inside : forall {A} (body rest : list A) k, (k < length body)%nat ->
  exists c r, skipn k (body ++ rest) = c :: r /\ In c body.
Proof.
  intros A body. induction body as [|x body IH]; intros rest k H; [cbn [length] in H; lia|].
  destruct k as [|k].
  - exists x, (body ++ rest). split; [reflexivity | left; reflexivity].
  - cbn [length] in H. destruct (IH rest k ltac:(lia)) as [c [r [E Hin]]]. exists c, r. split; [exact E | right; exact Hin].
Qed.

(* boundary suffixes *)
Definition P_basic (w : str) : Prop := match w with c :: _ => is_word c = false | [] => False end.
Definition P_array (p : ch) (w : str) : Prop :=
  match w with c :: x :: _ => is_word c = false /\ c <> RBR /\ x = p | _ => False end.

Lemma basic_tail_ok : forall p, is_prefix_ch p -> forall prev s n i k,
  ctx_start (basic_body p) prev s = Some (n, i) -> (1 <= k < n)%nat -> ~ P_basic (skipn k s).
Proof.
  intros p Hp prev s n i k H Hk HP.
  assert (W : forall t n', basic_body p t = Some (n', i) -> forall j, (j < n')%nat -> ~ P_basic (skipn j t)).
  { intros t n' Hb j Hj HP'. destruct (basic_body_shape p t n' i Hb) as [d [ds [r2 [E [Hd [Hds [_ [En _]]]]]]]].
    subst t n'. change (p :: d :: ds ++ r2) with ((p :: d :: ds) ++ r2) in HP'.
    destruct (skipn_inside (p :: d :: ds) r2 j ltac:(cbn [length]; lia)) as [c [r [E Hin]]]. rewrite E in HP'. cbn [P_basic] in HP'.
    assert (Hw : is_word c = true).
    { destruct Hin as [<-|[<-|Hin]]; [apply prefix_word; exact Hp | apply is_digit_word; unfold is_digit19 in Hd; unfold is_digit, in_range in *;
        apply andb_true_iff in Hd; destruct Hd as [A B]; apply N.leb_le in A; apply andb_true_iff; split; [apply N.leb_le; lia | exact B] |].
      apply is_digit_word. rewrite forallb_forall in Hds. apply Hds. exact Hin. }
    rewrite Hw in HP'. discriminate HP'. }
  destruct (ctx_start_cases _ _ _ _ _ H) as [[_ Hb]|[c [t [n' [-> [Hc [Hb ->]]]]]]].
  - exact (W s n Hb k ltac:(lia) HP).
  - destruct k as [|k]; [lia|]. cbn [skipn] in HP. exact (W t n' Hb k ltac:(lia) HP).
Qed.

Lemma array_tail_ok : forall p, is_prefix_ch p -> forall prev s n i k,
  ctx_start (array_body p) prev s = Some (n, i) -> (1 <= k < n)%nat -> ~ P_array p (skipn k s).
Proof.
  intros p Hp prev s n i k H Hk HP.
  assert (W : forall t n', array_body p t = Some (n', i) -> forall j, (j < n')%nat -> ~ P_array p (skipn j t)).
  { intros t n' Hb j Hj HP'. destruct (array_body_shape p t n' i Hb) as [d [ds [r3 [E [Hd [Hds [En _]]]]]]].
    subst t n'.
    assert (Hdw : is_word d = true).
    { apply is_digit_word. unfold is_digit19 in Hd. unfold is_digit, in_range in *. apply andb_true_iff in Hd. destruct Hd as [A B].
      apply N.leb_le in A. apply andb_true_iff. split; [apply N.leb_le; lia | exact B]. }
    destruct j as [|[|j]].
    - cbn [skipn P_array] in HP'. destruct HP' as [Hw _]. rewrite (prefix_word p Hp) in Hw. discriminate Hw.
    - cbn [skipn P_array] in HP'. destruct HP' as [_ [_ Hx]]. subst d. unfold is_digit19, in_range in Hd. destruct Hp as [->| ->]; discriminate Hd.
    - cbn [skipn] in HP'. change (d :: ds ++ RBR :: r3) with ((d :: ds) ++ RBR :: r3) in HP'.
      destruct (le_lt_dec (length (d :: ds)) j) as [L|L].
      + assert (j = length (d :: ds)) by (cbn [length] in *; lia). subst j.
        rewrite skipn_app, skipn_all, Nat.sub_diag in HP'. cbn [skipn app P_array] in HP'.
        destruct r3 as [|x r3]; [exact HP'|]. destruct HP' as [_ [Hne _]]. apply Hne. reflexivity.
      + destruct (skipn_inside (d :: ds) (RBR :: r3) j L) as [c [r [E Hin]]]. rewrite E in HP'.
        assert (Hw : is_word c = true).
        { destruct Hin as [<-|Hin]; [exact Hdw|]. apply is_digit_word. rewrite forallb_forall in Hds. apply Hds. exact Hin. }
        cbn [P_array] in HP'. destruct r as [|x r]; [exact HP'|]. destruct HP' as [Hc _]. rewrite Hw in Hc. discriminate Hc. }
  destruct (ctx_start_cases _ _ _ _ _ H) as [[_ Hb]|[c [t [n' [-> [Hc [Hb ->]]]]]]].
  - exact (W s n Hb k ltac:(lia) HP).
  - destruct k as [|k]; [lia|]. cbn [skipn] in HP. exact (W t n' Hb k ltac:(lia) HP).
Qed.

(* ------------------------------------------------------------------ token occurrences *)
(* nothing, or a character outside [_a-zA-Z0-9], stands before the token *)
Definition bound_before (pre : str) : Prop := match last_opt pre with None => True | Some c => is_word c = false end.
(* ... and the same after it (the end of the text, or a character outside the class) *)
Definition bound_after (post : str) : Prop := not_word_next post = true.
(* for a[N] the character before must also not be a closing bracket: the scan is non-overlapping and the boundary character is
   CONSUMED by the match, so in  a[1]a[2]  the bracket that closes a[1] cannot open the match of a[2] (index_boundary_needed) *)
Definition bound_before_index (pre : str) : Prop :=
  match last_opt pre with None => True | Some c => is_word c = false /\ c <> RBR end.
Definition occurs_name (q : str) (p : ch) (n : N) : Prop :=
  exists pre post, q = pre ++ name_tok p n ++ post /\ bound_before pre /\ bound_after post.
Definition occurs_index (q : str) (p : ch) (n : N) : Prop :=
  exists pre post, q = pre ++ index_tok p n ++ post /\ bound_before_index pre.

Lemma basic_body_hit : forall p n post, 1 <= n -> bound_after post ->
  exists len, basic_body p (name_tok p n ++ post) = Some (len, n).
Proof.
  intros p n post Hn Ha. destruct (dec_shape n Hn) as [d [ds [E [Hd Hds]]]]. unfold name_tok. rewrite E. cbn [app basic_body].
  rewrite N.eqb_refl, Hd. cbn [andb].
  assert (Hstop : match post with [] => True | c :: _ => is_digit c = false end).
  { unfold bound_after, not_word_next in Ha. destruct post as [|c post]; [exact I|].
    destruct (is_digit c) eqn:Ec; [|reflexivity]. rewrite (is_digit_word c Ec) in Ha. discriminate Ha. }
  rewrite (span_by_stop' is_digit ds post Hds Hstop). unfold bound_after in Ha. rewrite Ha.
  eexists. rewrite <- E, dec_of_N_val. reflexivity.
Qed.

Lemma array_body_hit : forall p n post, 1 <= n ->
  exists len, array_body p (index_tok p n ++ post) = Some (len, n).
Proof.
  intros p n post Hn. destruct (dec_shape n Hn) as [d [ds [E [Hd Hds]]]]. unfold index_tok. rewrite E. cbn [app array_body].
  rewrite N.eqb_refl, Hd. cbn [andb N.eqb LBR Pos.eqb]. rewrite <- app_assoc. cbn [app].
  rewrite (span_by_stop' is_digit ds (RBR :: post) Hds eq_refl). cbn [N.eqb RBR Pos.eqb].
  eexists. rewrite <- E, dec_of_N_val. reflexivity.
Qed.

Lemma body_none_other_head : forall p c t, c <> p -> basic_body p (c :: t) = None /\ array_body p (c :: t) = None.
Proof.
  intros p c t H. unfold basic_body, array_body. rewrite (proj2 (N.eqb_neq c p) H). cbn [andb].
  split; [destruct t; reflexivity | destruct t as [|? [|? ?]]; reflexivity].
Qed.

Lemma in_infos : forall {I} (x : nat * nat * I) l, In x l -> In (snd x) (infos l).
Proof. intros I x l H. unfold infos. apply List.in_map. exact H. Qed.

(* the general search step: a hit of the body behind a boundary is in the list of all matches *)
Lemma ctx_search : forall {I} (body : str -> option (nat * I)) (P : str -> Prop) (p : ch),
  is_prefix_ch p -> body [] = None ->
  (forall c t, c <> p -> body (c :: t) = None) ->
  (forall prev s n i k, ctx_start body prev s = Some (n, i) -> (1 <= k < n)%nat -> ~ P (skipn k s)) ->
  forall pre rest len i,
    body rest = Some (len, i) ->
    match last_opt pre with None => True | Some c => is_word c = false /\ P (c :: rest) end ->
    In i (infos (find_all (ctx_start body) (pre ++ rest))).
Proof.
  intros I body P p Hp Hempty Hother Htail pre rest len i Hb Hpre.
  destruct (last_opt pre) as [c|] eqn:El.
  - destruct Hpre as [Hc HP]. destruct (last_opt_some pre c El) as [u ->]. rewrite <- app_assoc. cbn [app].
    destruct (find_all_from_reach (ctx_start body) P Htail u None 0%nat 0%nat (c :: rest) HP (Nat.le_0_l _)) as [front E].
    unfold find_all. rewrite E. unfold infos. rewrite map_app. apply in_or_app. right.
    cbn [find_all_from].
    assert (Hm : ctx_start body (prev_after None u) (c :: rest) = Some (S len, i)).
    { unfold ctx_start. assert (Hcp : c <> p) by (intro X; subst c; rewrite (prefix_word p Hp) in Hc; discriminate Hc).
      rewrite (Hother c rest Hcp). rewrite Hc, Hb. destruct (prev_after None u); reflexivity. }
    rewrite Hm. left. reflexivity.
  - destruct pre as [|x pre]; [|exfalso; exact (last_opt_cons_none x pre El)].
    cbn [app]. unfold find_all. destruct rest as [|r0 rest].
    + rewrite Hempty in Hb. discriminate Hb.
    + cbn [find_all_from]. unfold ctx_start at 1. rewrite Hb. left. reflexivity.
Qed.

Lemma name_found : forall q p n, is_prefix_ch p -> 1 <= n -> occurs_name q p n ->
  In n (infos (find_all (ctx_start (basic_body p)) q)).
Proof.
  intros q p n Hp Hn [pre [post [-> [Hb Ha]]]]. destruct (basic_body_hit p n post Hn Ha) as [len Hhit].
  apply (ctx_search (basic_body p) P_basic p Hp eq_refl (fun c t H => proj1 (body_none_other_head p c t H)) (basic_tail_ok p Hp) pre _ len n Hhit).
  unfold bound_before in Hb. destruct (last_opt pre); [|exact I]. split; exact Hb.
Qed.

Lemma index_found : forall q p n, is_prefix_ch p -> 1 <= n -> occurs_index q p n ->
  In n (infos (find_all (ctx_start (array_body p)) q)).
Proof.
  intros q p n Hp Hn [pre [post [-> Hb]]]. destruct (array_body_hit p n post Hn) as [len Hhit].
  apply (ctx_search (array_body p) (P_array p) p Hp eq_refl (fun c t H => proj2 (body_none_other_head p c t H)) (array_tail_ok p Hp) pre _ len n Hhit).
  unfold bound_before_index in Hb. destruct (last_opt pre) as [c|]; [|exact I]. destruct Hb as [H1 H2]. split; [exact H1|].
  unfold index_tok. cbn [app P_array]. repeat split; assumption.
Qed.

(* every match reported by the scan is a match of the matcher at some suffix of the text *)
Lemma prev_after_cons : forall prev (x : ch) u, prev_after prev (x :: u) = prev_after (Some x) u.
Proof.
  intros prev x u. unfold prev_after. destruct u as [|y u]; [reflexivity|]. change (last_opt (x :: y :: u)) with (last_opt (y :: u)).
  destruct (last_opt (y :: u)) eqn:E; [reflexivity|]. exfalso. exact (last_opt_cons_none y u E).
Qed.

Lemma find_all_from_in : forall {I} (m : option ch -> str -> option (nat * I)) s prev pos skip x,
  In x (find_all_from m s prev pos skip) ->
  exists u s' n, s = u ++ s' /\ m (prev_after prev u) s' = Some (n, snd x).
Proof.
  intros I m s. induction s as [|c t IH]; intros prev pos skip x H; [contradiction H|].
  cbn [find_all_from] in H.
  assert (Step : forall k p', In x (find_all_from m t (Some c) p' k) -> exists u s' n, c :: t = u ++ s' /\ m (prev_after prev u) s' = Some (n, snd x)).
  { intros k p' Hin. destruct (IH (Some c) p' k x Hin) as [u [s' [n [E Hm]]]]. exists (c :: u), s', n. split; [cbn [app]; rewrite E; reflexivity|].
    rewrite prev_after_cons. exact Hm. }
  destruct skip as [|k]; [|exact (Step _ _ H)].
  destruct (m prev (c :: t)) as [[n i]|] eqn:Em; [|exact (Step _ _ H)].
  destruct H as [<-|H]; [|exact (Step _ _ H)].
  exists [], (c :: t), n. split; [reflexivity | exact Em].
Qed.

Lemma N_of_digits_ge1 : forall d ds, is_digit19 d = true -> 1 <= N_of_digits (d :: ds).
Proof.
  intros d ds H. unfold N_of_digits. cbn [N_of_digits_acc]. rewrite nod_acc. unfold is_digit19, in_range in H.
  apply andb_true_iff in H. destruct H as [A B]. apply N.leb_le in A, B.
  assert (1 <= 0 * 10 + (d - 48)) by lia. assert (1 <= 10 ^ N.of_nat (length ds)) by (apply N.lt_pred_le, N.neq_0_lt_0, N.pow_nonzero; lia).
  nia.
Qed.

Lemma found_basic_ge1 : forall q p n, In n (infos (find_all (ctx_start (basic_body p)) q)) -> 1 <= n.
Proof.
  intros q p n H. unfold infos in H. apply in_map_iff in H. destruct H as [x [<- Hx]].
  destruct (find_all_from_in _ _ _ _ _ _ Hx) as [u [s' [len [_ Hm]]]].
  destruct (ctx_start_cases _ _ _ _ _ Hm) as [[_ Hb]|[c [t [n' [_ [_ [Hb _]]]]]]];
    destruct (basic_body_shape _ _ _ _ Hb) as [d [ds [r2 [_ [Hd [_ [_ [_ ->]]]]]]]]; apply N_of_digits_ge1; exact Hd.
Qed.

Lemma found_array_ge1 : forall q p n, In n (infos (find_all (ctx_start (array_body p)) q)) -> 1 <= n.
Proof.
  intros q p n H. unfold infos in H. apply in_map_iff in H. destruct H as [x [<- Hx]].
  destruct (find_all_from_in _ _ _ _ _ _ Hx) as [u [s' [len [_ Hm]]]].
  destruct (ctx_start_cases _ _ _ _ _ Hm) as [[_ Hb]|[c [t [n' [_ [_ [Hb _]]]]]]];
    destruct (array_body_shape _ _ _ _ Hb) as [d [ds [r2 [_ [Hd [_ [_ ->]]]]]]]; apply N_of_digits_ge1; exact Hd.
Qed.

(* ------------------------------------------------------------------ the maps *)
Definition set_step (key : N -> str) : vmap -> N -> vmap := fun acc n => map_set (key n) (true, n - 1) acc.

Lemma parse_basic_fold : forall q p m,
  parse_basic_variables q p m = fold_left (set_step (name_tok p)) (infos (find_all (ctx_start (basic_body p)) q)) m.
Proof. reflexivity. Qed.
Lemma parse_array_fold : forall q p m,
  parse_array_variables q p m = fold_left (set_step (index_tok p)) (infos (find_all (ctx_start (array_body p)) q)) m.
Proof. reflexivity. Qed.

Lemma map_get_in : forall k v m, map_get k m = Some v -> In (k, v) m.
Proof.
  intros k v m. induction m as [|[k' v'] m IH]; intro H; [discriminate H|]. cbn [map_get] in H.
  destruct (str_eqb k' k) eqn:E.
  - apply str_eqb_eq in E. subst k'. injection H as ->. left. reflexivity.
  - right. exact (IH H).
Qed.

Lemma map_set_Forall : forall (Q : str * vinfo -> Prop) k v m, Forall Q m -> Q (k, v) -> Forall Q (map_set k v m).
Proof.
  intros Q k v m H Hq. induction H as [|[k' v'] m Hx Hm IH]; cbn [map_set]; [constructor; [exact Hq | constructor]|].
  destruct (str_eqb k' k) eqn:E.
  - apply str_eqb_eq in E. subst k'. constructor; assumption.
  - constructor; assumption.
Qed.

Section FoldSet.
  Variable key : N -> str.
  Hypothesis key_inj : forall a b, key a = key b -> a = b.

  Lemma fold_set_keep : forall ns m n, map_get (key n) m = Some (true, n - 1) ->
    map_get (key n) (fold_left (set_step key) ns m) = Some (true, n - 1).
  Proof.
    induction ns as [|x ns IH]; intros m n H; [exact H|]. cbn [fold_left]. apply IH. unfold set_step.
    destruct (list_eq_dec N.eq_dec (key x) (key n)) as [E|E].
    - rewrite E. rewrite (key_inj x n E). apply map_get_set_same.
    - rewrite map_get_set_other by exact E. exact H.
  Qed.

  Lemma fold_set_in : forall ns m n, In n ns -> map_get (key n) (fold_left (set_step key) ns m) = Some (true, n - 1).
  Proof.
    induction ns as [|x ns IH]; intros m n H; [contradiction H|]. cbn [fold_left]. destruct H as [->|H].
    - apply fold_set_keep. unfold set_step. apply map_get_set_same.
    - apply IH. exact H.
  Qed.

  Lemma fold_set_other : forall ns m k, (forall n, key n <> k) -> map_get k (fold_left (set_step key) ns m) = map_get k m.
  Proof.
    induction ns as [|x ns IH]; intros m k H; [reflexivity|]. cbn [fold_left]. rewrite IH by exact H.
    unfold set_step. apply map_get_set_other. apply H.
  Qed.

  Lemma fold_set_Forall : forall (Q : str * vinfo -> Prop) ns m, Forall Q m -> (forall n, In n ns -> Q (key n, (true, n - 1))) ->
    Forall Q (fold_left (set_step key) ns m).
  Proof.
    intros Q. induction ns as [|x ns IH]; intros m Hm Hq; [exact Hm|]. cbn [fold_left]. apply IH.
    - unfold set_step. apply map_set_Forall; [exact Hm | apply Hq; left; reflexivity].
    - intros n Hn. apply Hq. right. exact Hn.
  Qed.

  Lemma fold_set_only : forall ns m k v, map_get k (fold_left (set_step key) ns m) = Some v ->
    map_get k m = Some v \/ exists n, In n ns /\ k = key n /\ v = (true, n - 1).
  Proof.
    induction ns as [|x ns IH]; intros m k v H; [left; exact H|]. cbn [fold_left] in H.
    destruct (IH _ k v H) as [H1|[n [Hn [E1 E2]]]].
    - unfold set_step in H1. destruct (list_eq_dec N.eq_dec (key x) k) as [E|E].
      + subst k. rewrite map_get_set_same in H1. injection H1 as <-. right. exists x. split; [left; reflexivity | split; reflexivity].
      + rewrite map_get_set_other in H1 by exact E. left. exact H1.
    - right. exists n. split; [right; exact Hn | split; assumption].
  Qed.
End FoldSet.

Lemma name_tok_inj : forall p a b, name_tok p a = name_tok p b -> a = b.
Proof. intros p a b E. unfold name_tok in E. injection E as E. exact (dec_of_N_inj' a b E). Qed.
Lemma index_tok_inj : forall p a b, index_tok p a = index_tok p b -> a = b.
Proof. intros p a b E. unfold index_tok in E. injection E as E. apply app_inv_tail in E. exact (dec_of_N_inj' a b E). Qed.
Lemma name_not_index : forall p a b, name_tok p a <> index_tok p b.
Proof.
  intros p a b E. unfold name_tok, index_tok in E. injection E as E.
  pose proof (dec_of_N_digits' a) as D. rewrite E in D. inversion D as [|? ? H _]; subst. unfold LBR in H. lia.
Qed.

(* the variable map of the numbered variables *)
Lemma numbered_name_get : forall q p n, is_prefix_ch p -> 1 <= n -> occurs_name q p n ->
  map_get (name_tok p n) (numbered_vars q p) = Some (true, n - 1).
Proof.
  intros q p n Hp Hn Ho. unfold numbered_vars. rewrite parse_array_fold.
  rewrite fold_set_other by (intros x E; exact (name_not_index p n x (eq_sym E))).
  rewrite parse_basic_fold. apply (fold_set_in (name_tok p) (name_tok_inj p)). exact (name_found q p n Hp Hn Ho).
Qed.

Lemma numbered_index_get : forall q p n, is_prefix_ch p -> 1 <= n -> occurs_index q p n ->
  map_get (index_tok p n) (numbered_vars q p) = Some (true, n - 1).
Proof.
  intros q p n Hp Hn Ho. unfold numbered_vars. rewrite parse_array_fold.
  apply (fold_set_in (index_tok p) (index_tok_inj p)). exact (index_found q p n Hp Hn Ho).
Qed.

Definition entry_ok (p : ch) (e : str * vinfo) : Prop :=
  exists n, 1 <= n /\ (e = (name_tok p n, (true, n - 1)) \/ e = (index_tok p n, (true, n - 1))).

Lemma numbered_entries : forall q p, Forall (entry_ok p) (numbered_vars q p).
Proof.
  intros q p. unfold numbered_vars. rewrite parse_array_fold, parse_basic_fold.
  apply fold_set_Forall; [apply fold_set_Forall; [constructor|]|].
  - intros n Hn. exists n. split; [exact (found_basic_ge1 q p n Hn) | left; reflexivity].
  - intros n Hn. exists n. split; [exact (found_array_ge1 q p n Hn) | right; reflexivity].
Qed.

(* ------------------------------------------------------------------ the binding environment *)
Lemma target_eqb_true : forall a b, target_eqb a b = true -> a = b.
Proof.
  intros [x|x|x|] [y|y|y|] H; cbn [target_eqb] in H; try discriminate H.
  - apply str_eqb_eq in H. subst. reflexivity.
  - apply N.eqb_eq in H. subst. reflexivity.
  - apply str_eqb_eq in H. subst. reflexivity.
Qed.
Lemma target_eqb_refl : forall a, a <> TOther -> target_eqb a a = true.
Proof. intros [x|x|x|] H; cbn [target_eqb]; [apply str_eqb_refl | apply N.eqb_refl | apply str_eqb_refl | contradiction]. Qed.

Lemma assoc_last_sound : forall t l j, assoc_last t l = Some j -> In (t, j) l.
Proof.
  intros t l. induction l as [|[t' i] l IH]; intros j H; [discriminate H|]. cbn [assoc_last] in H.
  destruct (assoc_last t l) as [j'|] eqn:E.
  - injection H as <-. right. apply IH. reflexivity.
  - destruct (target_eqb t' t) eqn:Et; [|discriminate H]. injection H as <-. apply target_eqb_true in Et. subst t'. left. reflexivity.
Qed.
Lemma assoc_last_complete : forall t l i, t <> TOther -> In (t, i) l -> exists j, assoc_last t l = Some j.
Proof.
  intros t l. induction l as [|[t' i'] l IH]; intros i Ht H; [contradiction H|]. cbn [assoc_last].
  destruct (assoc_last t l) as [j'|] eqn:E; [eexists; reflexivity|].
  destruct H as [H|H].
  - injection H as -> ->. rewrite (target_eqb_refl t Ht). eexists. reflexivity.
  - destruct (IH i Ht H) as [j Hj]. discriminate Hj.
Qed.
Lemma assoc_last_unique : forall t l v, t <> TOther -> (exists i, In (t, i) l) -> (forall i, In (t, i) l -> i = v) ->
  assoc_last t l = Some v.
Proof.
  intros t l v Ht [i Hi] Hu. destruct (assoc_last_complete t l i Ht Hi) as [j Hj]. rewrite Hj. f_equal. apply Hu.
  exact (assoc_last_sound t l j Hj).
Qed.

Lemma bind_env_in : forall fl p m t i, In (t, i) (bind_env fl p m) <-> exists k, In (k, (true, i)) m /\ classify fl p k = t.
Proof.
  intros fl p m t i. unfold bind_env. rewrite in_flat_map. split.
  - intros [[k [ini j]] [Hin H]]. destruct ini; [|contradiction H]. destruct H as [H|[]]. injection H as <- <-. exists k. split; [exact Hin | reflexivity].
  - intros [k [Hin <-]]. exists (k, (true, i)). split; [exact Hin | left; reflexivity].
Qed.

Lemma simple_name_tok : forall p n, is_prefix_ch p -> simple_name (name_tok p n) = true.
Proof.
  intros p n Hp. unfold simple_name, name_tok. cbn [nonempty forallb andb]. rewrite (prefix_word p Hp). cbn [andb].
  pose proof (dec_of_N_digits' n) as D. induction D as [|c s H _ IH]; [reflexivity|]. cbn [forallb].
  rewrite (is_digit_word c (digit_range c H)), IH. reflexivity.
Qed.
Lemma classify_name : forall fl p n, is_prefix_ch p -> classify fl p (name_tok p n) = TLocal (name_tok p n).
Proof. intros fl p n Hp. unfold classify. rewrite (simple_name_tok p n Hp). reflexivity. Qed.

Lemma is_numeral_dec : forall n, 1 <= n -> is_numeral (dec_of_N n) = true.
Proof.
  intros n H. destruct (dec_shape n H) as [d [ds [E [Hd Hds]]]]. rewrite E. unfold is_numeral. destruct ds as [|x ds].
  - unfold is_digit19, in_range in Hd. unfold is_digit, in_range. apply andb_true_iff in Hd. destruct Hd as [A B]. apply N.leb_le in A.
    apply andb_true_iff. split; [apply N.leb_le; lia | exact B].
  - rewrite Hd, Hds. reflexivity.
Qed.
Definition index_target (fl : lang) (n : N) : target := match fl with LPy => TInt n | LJs => TStr (dec_of_N n) end.
Lemma classify_index : forall fl p n, is_prefix_ch p -> 1 <= n -> classify fl p (index_tok p n) = index_target fl n.
Proof.
  intros fl p n Hp Hn. unfold classify, index_tok.
  assert (S0 : simple_name (p :: LBR :: dec_of_N n ++ [RBR]) = false).
  { unfold simple_name. cbn [nonempty forallb andb]. change (is_word LBR) with false. cbn [andb]. apply andb_false_r. }
  rewrite S0. rewrite N.eqb_refl. cbn [andb N.eqb LBR Pos.eqb]. rewrite rev_unit. cbn [N.eqb RBR Pos.eqb]. rewrite rev_involutive.
  unfold bracket_key. rewrite (is_numeral_dec n Hn), dec_of_N_val. destruct fl; reflexivity.
Qed.
Lemma index_target_inj : forall fl a b, index_target fl a = index_target fl b -> a = b.
Proof. intros [|] a b E; cbn [index_target] in E; injection E as E; [exact E | exact (dec_of_N_inj' a b E)]. Qed.
Lemma index_target_not_other : forall fl n, index_target fl n <> TOther.
Proof. intros [|] n; discriminate. Qed.
Lemma index_target_not_local : forall fl n s, index_target fl n <> TLocal s.
Proof. intros [|] n s; discriminate. Qed.

Lemma lookup_eq : forall fl p m tok, classify fl p tok <> TOther ->
  lookup fl p m tok = assoc_last (classify fl p tok) (bind_env fl p m).
Proof. intros fl p m tok H. unfold lookup. destruct (classify fl p tok); try reflexivity. contradiction. Qed.

(* the general step: in a map all of whose entries are numbered variables, a numbered token that IS a key reads its own index *)
Lemma lookup_numbered : forall fl p m, is_prefix_ch p -> Forall (entry_ok p) m ->
  forall n, 1 <= n ->
  (map_get (name_tok p n) m = Some (true, n - 1) -> lookup fl p m (name_tok p n) = Some (n - 1)) /\
  (map_get (index_tok p n) m = Some (true, n - 1) -> lookup fl p m (index_tok p n) = Some (n - 1)).
Proof.
  intros fl p m Hp Hall n Hn. rewrite Forall_forall in Hall. split; intro Hg.
  - rewrite lookup_eq by (rewrite (classify_name fl p n Hp); discriminate).
    rewrite (classify_name fl p n Hp). apply assoc_last_unique; [discriminate| |].
    + exists (n - 1). apply bind_env_in. exists (name_tok p n). split; [exact (map_get_in _ _ _ Hg) | apply classify_name; exact Hp].
    + intros i Hi. apply bind_env_in in Hi. destruct Hi as [k [Hin Hc]]. destruct (Hall _ Hin) as [n' [Hn' [E|E]]]; injection E as -> ->.
      * rewrite (classify_name fl p n' Hp) in Hc. injection Hc as Hc. rewrite (dec_of_N_inj' n' n Hc). reflexivity.
      * rewrite (classify_index fl p n' Hp Hn') in Hc. exfalso. exact (index_target_not_local fl n' _ Hc).
  - rewrite lookup_eq by (rewrite (classify_index fl p n Hp Hn); apply index_target_not_other).
    rewrite (classify_index fl p n Hp Hn).
    apply assoc_last_unique; [apply index_target_not_other| |].
    + exists (n - 1). apply bind_env_in. exists (index_tok p n). split; [exact (map_get_in _ _ _ Hg) | apply classify_index; assumption].
    + intros i Hi. apply bind_env_in in Hi. destruct Hi as [k [Hin Hc]]. destruct (Hall _ Hin) as [n' [Hn' [E|E]]]; injection E as -> ->.
      * rewrite (classify_name fl p n' Hp) in Hc. exfalso. exact (index_target_not_local fl n _ (eq_sym Hc)).
      * rewrite (classify_index fl p n' Hp Hn') in Hc. rewrite (index_target_inj fl n' n Hc). reflexivity.
Qed.

(* ================================================================== C08_var_index *)
Theorem var_index : forall (fl : lang) (q : str) (p : ch) (n : N), is_prefix_ch p -> 1 <= n ->
  (occurs_name q p n -> lookup fl p (numbered_vars q p) (name_tok p n) = Some (n - 1)) /\
  (occurs_index q p n -> lookup fl p (numbered_vars q p) (index_tok p n) = Some (n - 1)).
Proof.
  intros fl q p n Hp Hn. destruct (lookup_numbered fl p (numbered_vars q p) Hp (numbered_entries q p) n Hn) as [A B]. split; intro Ho.
  - apply A. exact (numbered_name_get q p n Hp Hn Ho).
  - apply B. exact (numbered_index_get q p n Hp Hn Ho).
Qed.

(* the rbql-js flavour of the map: the same, whenever the model answers at all (every number read below 2^53) *)
Lemma numbered_vars_fl_some : forall fl q p m, numbered_vars_fl fl q p = Some m -> m = numbered_vars q p.
Proof. intros [|] q p m H; cbn [numbered_vars_fl] in H; [|destruct (js_exact q p); [|discriminate H]]; injection H as <-; reflexivity. Qed.

Theorem var_index_fl : forall (fl : lang) (q : str) (p : ch) (n : N) (m : vmap), is_prefix_ch p -> 1 <= n ->
  numbered_vars_fl fl q p = Some m ->
  (occurs_name q p n -> lookup fl p m (name_tok p n) = Some (n - 1)) /\
  (occurs_index q p n -> lookup fl p m (index_tok p n) = Some (n - 1)).
Proof. intros fl q p n m Hp Hn H. rewrite (numbered_vars_fl_some fl q p m H). exact (var_index fl q p n Hp Hn). Qed.

(* ================================================================== C08_aN_bracket_equiv *)
Lemma tbl_ch_prefix : forall t, is_prefix_ch (tbl_ch t).
Proof. intros [|]; [left | right]; reflexivity. Qed.

Definition field_value (en : env) (t : tbl) (i : nat) : atom :=
  match t with TA => safe_get (e_a en) i | TB => b_field (e_b en) i end.

Theorem aN_bracket_equiv : forall (fl : lang) (efl : flavour) (t : tbl) (i : nat) (q1 q2 : str),
  occurs_name q1 (tbl_ch t) (N.of_nat (S i)) -> occurs_index q2 (tbl_ch t) (N.of_nat (S i)) ->
  field_expr fl t (numbered_vars q1 (tbl_ch t)) (render_fld SpName t i) = Some (EFld t i) /\
  field_expr fl t (numbered_vars q2 (tbl_ch t)) (render_fld SpIndex t i) = Some (EFld t i) /\
  (forall (K : expr -> expr) (en : env) e1 e2,
     field_expr fl t (numbered_vars q1 (tbl_ch t)) (render_fld SpName t i) = Some e1 ->
     field_expr fl t (numbered_vars q2 (tbl_ch t)) (render_fld SpIndex t i) = Some e2 ->
     eval efl en (K e1) = eval efl en (K e2)) /\
  (forall en, eval efl en (EFld t i) = Expr.Ok (VA (field_value en t i))) /\
  (forall en, (length (e_a en) <= i)%nat -> eval efl en (EFld TA i) = Expr.Ok (VA ANone)).
Proof.
  intros fl efl t i q1 q2 H1 H2.
  assert (Hn : 1 <= N.of_nat (S i)) by lia.
  destruct (var_index fl q1 (tbl_ch t) _ (tbl_ch_prefix t) Hn) as [A _]. destruct (var_index fl q2 (tbl_ch t) _ (tbl_ch_prefix t) Hn) as [_ B].
  assert (Ei : N.to_nat (N.of_nat (S i) - 1) = i) by lia.
  assert (F1 : field_expr fl t (numbered_vars q1 (tbl_ch t)) (render_fld SpName t i) = Some (EFld t i)).
  { unfold field_expr, render_fld. rewrite (A H1). cbn [option_map]. rewrite Ei. reflexivity. }
  assert (F2 : field_expr fl t (numbered_vars q2 (tbl_ch t)) (render_fld SpIndex t i) = Some (EFld t i)).
  { unfold field_expr, render_fld. rewrite (B H2). cbn [option_map]. rewrite Ei. reflexivity. }
  split; [exact F1|]. split; [exact F2|]. split; [|split].
  - intros K en e1 e2 E1 E2. rewrite F1 in E1. rewrite F2 in E2. injection E1 as <-. injection E2 as <-. reflexivity.
  - intros en. destruct t; reflexivity.
  - intros en Hl. cbn [eval]. unfold safe_get. rewrite nth_overflow by exact Hl. reflexivity.
Qed.

(* respelling ONE occurrence in place: the same text around it *)
Theorem respell_in_place : forall (fl : lang) (t : tbl) (i : nat) (pre post : str),
  bound_before_index pre -> bound_after post ->
  let q1 := pre ++ render_fld SpName t i ++ post in
  let q2 := pre ++ render_fld SpIndex t i ++ post in
  field_expr fl t (numbered_vars q1 (tbl_ch t)) (render_fld SpName t i) = Some (EFld t i) /\
  field_expr fl t (numbered_vars q2 (tbl_ch t)) (render_fld SpIndex t i) = Some (EFld t i).
Proof.
  intros fl t i pre post Hb Ha q1 q2.
  assert (O1 : occurs_name q1 (tbl_ch t) (N.of_nat (S i))).
  { exists pre, post. split; [reflexivity|]. split; [|exact Ha]. unfold bound_before. unfold bound_before_index in Hb.
    destruct (last_opt pre); [exact (proj1 Hb) | exact I]. }
  assert (O2 : occurs_index q2 (tbl_ch t) (N.of_nat (S i))) by (exists pre, post; split; [reflexivity | exact Hb]).
  destruct (aN_bracket_equiv fl Py t i q1 q2 O1 O2) as [F1 [F2 _]]. split; assumption.
Qed.

(* ================================================================== digits *)
(* a0 / a0123 / a[0] / a[01] : the scanners never match a numeral that starts with 0, whatever stands before and after *)
Theorem leading_zero_never : forall (p : ch) (prev : option ch) (r : str), is_prefix_ch p ->
  ctx_start (basic_body p) prev (p :: 48 :: r) = None /\
  ctx_start (array_body p) prev (p :: LBR :: 48 :: r) = None /\
  (forall c, is_word c = false ->
     ctx_start (basic_body p) prev (c :: p :: 48 :: r) = None /\ ctx_start (array_body p) prev (c :: p :: LBR :: 48 :: r) = None).
Proof.
  intros p prev r Hp. pose proof (prefix_word p Hp) as W.
  assert (B0 : basic_body p (p :: 48 :: r) = None) by (unfold basic_body; rewrite N.eqb_refl; reflexivity).
  assert (A0 : array_body p (p :: LBR :: 48 :: r) = None) by (unfold array_body; rewrite N.eqb_refl; reflexivity).
  split; [|split].
  - unfold ctx_start. rewrite B0, W. destruct prev; reflexivity.
  - unfold ctx_start. rewrite A0, W. destruct prev; reflexivity.
  - intros c Hc. assert (Hcp : c <> p) by (intro X; subst c; rewrite W in Hc; discriminate Hc).
    destruct (body_none_other_head p c (p :: 48 :: r) Hcp) as [E1 _]. destruct (body_none_other_head p c (p :: LBR :: 48 :: r) Hcp) as [_ E2].
    unfold ctx_start. rewrite E1, E2, Hc, B0, A0. destruct prev; split; reflexivity.
Qed.

(* the decimal text of a canonical numeral is the numeral: needed to go back from a map key to the text of the query *)
Lemma dec_fuel_acc : forall f n acc, n < 2 ^ N.of_nat f -> dec_fuel f n acc = dec_fuel f n [] ++ acc.
Proof.
  induction f as [|f IH]; intros n acc H; [reflexivity|]. cbn [dec_fuel]. destruct (N.ltb_spec n 10) as [L|L]; [reflexivity|].
  rewrite Nat2N.inj_succ, N.pow_succ_r' in H. assert (Hq : n / 10 < 2 ^ N.of_nat f) by (apply N.div_lt_upper_bound; lia).
  rewrite (IH (n / 10) ((n mod 10 + 48) :: acc) Hq). symmetry. rewrite IH by exact Hq. rewrite <- app_assoc. reflexivity.
Qed.
Lemma dec_fuel_indep : forall f1 f2 n acc, 1 <= n -> n < 2 ^ N.of_nat f1 -> n < 2 ^ N.of_nat f2 -> dec_fuel f1 n acc = dec_fuel f2 n acc.
Proof.
  induction f1 as [|f1 IH]; intros f2 n acc H0 H1 H2.
  - change (N.of_nat 0) with 0 in H1. rewrite N.pow_0_r in H1. lia.
  - destruct f2 as [|f2]; [change (N.of_nat 0) with 0 in H2; rewrite N.pow_0_r in H2; lia|].
    cbn [dec_fuel]. destruct (N.ltb_spec n 10) as [L|L]; [reflexivity|].
    rewrite Nat2N.inj_succ, N.pow_succ_r' in H1, H2.
    apply IH; [apply N.div_le_lower_bound; lia | apply N.div_lt_upper_bound; lia | apply N.div_lt_upper_bound; lia].
Qed.
Lemma size_bound : forall n, n < 2 ^ N.of_nat (S (N.size_nat n)).
Proof.
  intro n. rewrite Nat2N.inj_succ, N.pow_succ_r'. destruct n as [|p]; [cbn; lia|]. cbn [N.size_nat]. pose proof (pos_size_bound p). lia.
Qed.
Lemma dec_snoc : forall m r, 1 <= m -> r < 10 -> dec_of_N (m * 10 + r) = dec_of_N m ++ [r + 48].
Proof.
  intros m r Hm Hr. unfold dec_of_N at 1. cbn [dec_fuel]. destruct (N.ltb_spec (m * 10 + r) 10) as [L|L]; [lia|].
  assert (Ed : (m * 10 + r) / 10 = m) by (symmetry; apply (N.div_unique (m * 10 + r) 10 m r); lia).
  assert (Em : (m * 10 + r) mod 10 = r) by (symmetry; apply (N.mod_unique (m * 10 + r) 10 m r); lia).
  rewrite Ed, Em.
  assert (B : m < 2 ^ N.of_nat (N.size_nat (m * 10 + r))).
  { pose proof (size_bound m) as Sm. destruct (m * 10 + r) as [|pp] eqn:E; [lia|]. cbn [N.size_nat].
    (* m <= pp / 2 < 2 ^ (size pp - 1) ... simpler: m < 2^size(m*10+r) since size is monotone; use the bound of m itself *)
    destruct m as [|pm]; [lia|]. cbn [N.size_nat] in Sm.
    assert (Pos.size_nat pm <= Pos.size_nat pp)%nat.
    { assert (Hle : (pm <= pp)%positive) by lia. clear -Hle. revert pp Hle. induction pm as [pm IH|pm IH|]; intros [pp|pp|] H; cbn [Pos.size_nat]; try lia;
        try (apply le_n_S; apply IH; lia). }
    pose proof (pos_size_bound pm) as Bm.
    apply N.lt_le_trans with (2 ^ N.of_nat (Pos.size_nat pm)); [exact Bm|]. apply N.pow_le_mono_r; lia. }
  rewrite dec_fuel_acc by exact B. f_equal. unfold dec_of_N. apply dec_fuel_indep; [exact Hm | exact B | apply size_bound].
Qed.

Lemma N_of_digits_snoc : forall s c, N_of_digits (s ++ [c]) = N_of_digits s * 10 + (c - 48).
Proof.
  intros s c. unfold N_of_digits. generalize 0. induction s as [|x s IH]; intro a; [reflexivity|]. cbn [app N_of_digits_acc]. apply IH.
Qed.

Lemma canonical_roundtrip : forall ds d, is_digit19 d = true -> forallb is_digit ds = true -> dec_of_N (N_of_digits (d :: ds)) = d :: ds.
Proof.
  intros ds. induction ds as [|c ds IH] using rev_ind; intros d Hd Hds.
  - unfold N_of_digits. cbn [N_of_digits_acc]. unfold is_digit19, in_range in Hd. apply andb_true_iff in Hd. destruct Hd as [A B]. apply N.leb_le in A, B.
    replace (0 * 10 + (d - 48)) with (d - 48) by lia. unfold dec_of_N. cbn [dec_fuel].
    destruct (N.ltb_spec (d - 48) 10) as [L|L]; [|lia]. rewrite (N.mod_small _ _ L). f_equal. lia.
  - rewrite forallb_app in Hds. apply andb_true_iff in Hds. destruct Hds as [H1 H2]. cbn [forallb] in H2. rewrite andb_true_r in H2.
    change (d :: ds ++ [c]) with ((d :: ds) ++ [c]). rewrite N_of_digits_snoc.
    unfold is_digit, in_range in H2. apply andb_true_iff in H2. destruct H2 as [A B]. apply N.leb_le in A, B.
    rewrite dec_snoc; [|exact (N_of_digits_ge1 d ds Hd) | lia]. rewrite (IH d Hd H1). replace (c - 48 + 48) with c by lia. reflexivity.
Qed.

(* ================================================================== only if the token occurs *)
Lemma prev_after_none : forall u, prev_after None u = None -> u = [].
Proof. intros [|x u] H; [reflexivity|]. unfold prev_after in H. destruct (last_opt (x :: u)) eqn:E; [discriminate H|]. exfalso. exact (last_opt_cons_none x u E). Qed.

Theorem name_only_if_occurs : forall (q : str) (p : ch) (n : N) (v : vinfo), is_prefix_ch p ->
  map_get (name_tok p n) (numbered_vars q p) = Some v -> v = (true, n - 1) /\ 1 <= n /\ occurs_name q p n.
Proof.
  intros q p n v Hp H. unfold numbered_vars in H. rewrite parse_array_fold in H.
  rewrite fold_set_other in H by (intros x E; exact (name_not_index p n x (eq_sym E))).
  rewrite parse_basic_fold in H. destruct (fold_set_only (name_tok p) _ _ _ _ H) as [H0|[n' [Hin [E ->]]]]; [discriminate H0|].
  apply name_tok_inj in E. subst n'. split; [reflexivity|]. split; [exact (found_basic_ge1 q p n Hin)|].
  unfold infos in Hin. apply in_map_iff in Hin. destruct Hin as [x [Ex Hx]].
  destruct (find_all_from_in _ _ _ _ _ _ Hx) as [u [s' [len [Eq Hm]]]]. rewrite Ex in Hm.
  assert (Shape : forall t n0, basic_body p t = Some (n0, n) -> exists post, t = name_tok p n ++ post /\ bound_after post).
  { intros t n0 Hb. destruct (basic_body_shape _ _ _ _ Hb) as [d [ds [r2 [-> [Hd [Hds [Hnw [_ En]]]]]]]].
    exists r2. split; [|exact Hnw]. unfold name_tok. rewrite En, (canonical_roundtrip ds d Hd Hds). reflexivity. }
  destruct (ctx_start_cases _ _ _ _ _ Hm) as [[Hprev Hb]|[c [t [n' [-> [Hc [Hb _]]]]]]].
  - apply prev_after_none in Hprev. subst u. cbn [app] in Eq. destruct (Shape s' len Hb) as [post [-> Ha]].
    exists [], post. split; [exact Eq|]. split; [exact I | exact Ha].
  - destruct (Shape t n' Hb) as [post [-> Ha]]. exists (u ++ [c]), post. split; [rewrite Eq, <- app_assoc; reflexivity|].
    split; [|exact Ha]. unfold bound_before. rewrite last_opt_snoc. exact Hc.
Qed.

Theorem index_only_if_occurs : forall (q : str) (p : ch) (n : N) (v : vinfo), is_prefix_ch p ->
  map_get (index_tok p n) (numbered_vars q p) = Some v ->
  v = (true, n - 1) /\ 1 <= n /\ exists pre post, q = pre ++ index_tok p n ++ post /\ bound_before pre.
Proof.
  intros q p n v Hp H. unfold numbered_vars in H. rewrite parse_array_fold in H.
  destruct (fold_set_only (index_tok p) _ _ _ _ H) as [H0|[n' [Hin [E ->]]]].
  - exfalso. rewrite parse_basic_fold in H0. destruct (fold_set_only (name_tok p) _ _ _ _ H0) as [H1|[n' [_ [E _]]]]; [discriminate H1|].
    exact (name_not_index p n' n (eq_sym E)).
  - apply index_tok_inj in E. subst n'. split; [reflexivity|]. split; [exact (found_array_ge1 q p n Hin)|].
    unfold infos in Hin. apply in_map_iff in Hin. destruct Hin as [x [Ex Hx]].
    destruct (find_all_from_in _ _ _ _ _ _ Hx) as [u [s' [len [Eq Hm]]]]. rewrite Ex in Hm.
    assert (Shape : forall t n0, array_body p t = Some (n0, n) -> exists post, t = index_tok p n ++ post).
    { intros t n0 Hb. destruct (array_body_shape _ _ _ _ Hb) as [d [ds [r3 [-> [Hd [Hds [_ En]]]]]]].
      exists r3. unfold index_tok. rewrite En, (canonical_roundtrip ds d Hd Hds). cbn [app]. rewrite <- app_assoc. reflexivity. }
    destruct (ctx_start_cases _ _ _ _ _ Hm) as [[Hprev Hb]|[c [t [n' [-> [Hc [Hb _]]]]]]].
    + apply prev_after_none in Hprev. subst u. cbn [app] in Eq. destruct (Shape s' len Hb) as [post ->].
      exists [], post. split; [exact Eq | exact I].
    + destruct (Shape t n' Hb) as [post ->]. exists (u ++ [c]), post. split; [rewrite Eq, <- app_assoc; reflexivity|].
      unfold bound_before. rewrite last_opt_snoc. exact Hc.
Qed.

(* ================================================================== record-number names *)
Ltac clash H := repeat (destruct H as [H|H]; [try (vm_compute in H; discriminate H)|]); try contradiction.

(* the lines of generate_common_init_code, as text (ParserVars.init_lines), and nr_lookup say the same *)
Lemma nr_lookup_lines : forall fl fmt m jm,
  (nr_lookup fl fmt jm S_aNR = Some NRA <-> In S_aNR_eq_NR (common_init fmt 97)) /\
  (nr_lookup fl fmt jm S_adotNR = Some NRA <-> In (97 :: S_dotNR_eq ++ S_NR) (common_init fmt 97)) /\
  (nr_lookup LPy fmt jm S_bdotNR = Some NRB <-> In (98 :: S_dotNR_eq ++ S_bNR) (init_lines fmt m jm)).
Proof.
  intros fl fmt m jm. split; [|split].
  - unfold nr_lookup. change (str_eqb S_aNR S_NR) with false. change (str_eqb S_aNR S_aNR) with true. cbn iota.
    unfold common_init. change (N.eqb 97 97) with true. cbn [andb]. change (97 :: S_dotNR) with S_adotNR.
    destruct (contains S_aNR fmt); destruct (contains S_adotNR fmt); cbn [app In]; split; intro H;
      first [reflexivity | discriminate H | solve [auto 8] | clash H].
  - unfold nr_lookup. change (str_eqb S_adotNR S_NR) with false. change (str_eqb S_adotNR S_aNR) with false. change (str_eqb S_adotNR S_adotNR) with true. cbn iota.
    unfold common_init. change (N.eqb 97 97) with true. cbn [andb]. change (97 :: S_dotNR) with S_adotNR.
    destruct (contains S_aNR fmt); destruct (contains S_adotNR fmt); cbn [app In]; split; intro H;
      first [reflexivity | discriminate H | solve [auto 8] | clash H].
  - unfold nr_lookup. change (str_eqb S_bdotNR S_NR) with false. change (str_eqb S_bdotNR S_aNR) with false. change (str_eqb S_bdotNR S_adotNR) with false.
    change (str_eqb S_bdotNR S_bNR) with false. change (str_eqb S_bdotNR S_bdotNR) with true. cbn iota.
    unfold init_lines. split.
    + intro H. destruct jm as [[|e r]|]; cbn [join_init_emitted andb] in H; try discriminate H.
      destruct (contains S_bdotNR fmt) eqn:E; [|discriminate H]. apply in_or_app. right. apply in_or_app. right. apply in_or_app. left.
      unfold common_init. change (98 :: S_dotNR) with S_bdotNR. rewrite E. cbn [app In]. right. left. reflexivity.
    + intro H. apply in_app_or in H. destruct H as [H|H].
      { exfalso. unfold common_init in H. change (N.eqb 97 97) with true in H. cbn [andb] in H. revert H.
        repeat match goal with |- context [contains ?x fmt] => destruct (contains x fmt) end; intro H; cbn [app In] in H; clash H. }
      apply in_app_or in H. destruct H as [H|H].
      { exfalso. apply in_flat_map in H. destruct H as [[k [ini i]] [_ H]]. unfold init_line_a in H. destruct ini; [|contradiction H].
        destruct H as [H|[]]. apply (f_equal (fun s => contains S_get_a s)) in H.
        assert (X : contains S_get_a (k ++ S_get_a ++ dec_of_N i ++ S_rpar) = true) by (apply contains_spec; exists k, (dec_of_N i ++ S_rpar); reflexivity).
        rewrite X in H. vm_compute in H. discriminate H. }
      destruct jm as [[|e r]|]; try contradiction H. apply in_app_or in H. destruct H as [H|H].
      * cbn [join_init_emitted andb]. unfold common_init in H. change (98 :: S_dotNR) with S_bdotNR in H. change (N.eqb 98 97) with false in H. cbn [andb] in H.
        revert H. destruct (contains S_bdotNR fmt); [reflexivity|]. intro H. cbn [app In] in H. clash H.
      * exfalso. apply in_flat_map in H. destruct H as [[k [ini i]] [_ H]]. unfold init_line_b in H. destruct ini; [|contradiction H].
        destruct H as [H|[]]. apply (f_equal (fun s => contains S_get_b s)) in H.
        assert (X : contains S_get_b (k ++ S_get_b ++ dec_of_N i ++ S_get_b_tail) = true) by (apply contains_spec; exists k, (dec_of_N i ++ S_get_b_tail); reflexivity).
        rewrite X in H. vm_compute in H. discriminate H.
Qed.

(* a token is in particular a substring *)
Definition occurs_text (fmt tok : str) : Prop := exists pre post, fmt = pre ++ tok ++ post.

Theorem record_number_spellings : forall (fl : lang) (efl : flavour) (fmt : str) (jm : option vmap),
  (* input side: NR always; aNR and a.NR whenever the text contains them *)
  nr_lookup fl fmt jm S_NR = Some NRA /\
  (occurs_text fmt S_aNR -> nr_lookup fl fmt jm S_aNR = Some NRA) /\
  (occurs_text fmt S_adotNR -> nr_lookup fl fmt jm S_adotNR = Some NRA) /\
  (* join side: bNR in every JOIN query; b.NR when the text contains it and the join table's init code is emitted at all *)
  (jm <> None -> nr_lookup fl fmt jm S_bNR = Some NRB) /\
  (occurs_text fmt S_bdotNR -> join_init_emitted fl jm = true -> nr_lookup fl fmt jm S_bdotNR = Some NRB) /\
  (forall v, jm = Some v -> v <> [] \/ fl = LJs -> join_init_emitted fl jm = true) /\
  (* hence all spellings of one record number denote the same expression node and value *)
  (forall x y a b, nr_lookup fl fmt jm x = Some a -> nr_lookup fl fmt jm y = Some b ->
     (In x [S_NR; S_aNR; S_adotNR] /\ In y [S_NR; S_aNR; S_adotNR]) \/ (In x [S_bNR; S_bdotNR] /\ In y [S_bNR; S_bdotNR]) ->
     a = b /\ forall en, eval efl en (nr_expr a) = eval efl en (nr_expr b)).
Proof.
  intros fl efl fmt jm.
  assert (C : forall tok, occurs_text fmt tok -> contains tok fmt = true) by (intros tok [pre [post ->]]; apply contains_spec; exists pre, post; reflexivity).
  split; [reflexivity|]. split; [|split; [|split; [|split; [|split]]]].
  - intro H. unfold nr_lookup. change (str_eqb S_aNR S_NR) with false. change (str_eqb S_aNR S_aNR) with true. cbn iota. rewrite (C _ H). reflexivity.
  - intro H. unfold nr_lookup. change (str_eqb S_adotNR S_NR) with false. change (str_eqb S_adotNR S_aNR) with false. change (str_eqb S_adotNR S_adotNR) with true.
    cbn iota. rewrite (C _ H). reflexivity.
  - intro H. unfold nr_lookup. change (str_eqb S_bNR S_NR) with false. change (str_eqb S_bNR S_aNR) with false. change (str_eqb S_bNR S_adotNR) with false.
    change (str_eqb S_bNR S_bNR) with true. cbn iota. destruct jm; [reflexivity | contradiction].
  - intros H E. unfold nr_lookup. change (str_eqb S_bdotNR S_NR) with false. change (str_eqb S_bdotNR S_aNR) with false. change (str_eqb S_bdotNR S_adotNR) with false.
    change (str_eqb S_bdotNR S_bNR) with false. change (str_eqb S_bdotNR S_bdotNR) with true. cbn iota. rewrite E, (C _ H). reflexivity.
  - intros v -> [H| ->]; [destruct v; [contradiction | reflexivity] | destruct v; reflexivity].
  - assert (A : forall x a, In x [S_NR; S_aNR; S_adotNR] -> nr_lookup fl fmt jm x = Some a -> a = NRA).
    { intros x a Hin H. cbn [In] in Hin. destruct Hin as [<-|[<-|[<-|[]]]]; unfold nr_lookup in H.
      - change (str_eqb S_NR S_NR) with true in H. cbn iota in H. injection H as <-. reflexivity.
      - change (str_eqb S_aNR S_NR) with false in H. change (str_eqb S_aNR S_aNR) with true in H. cbn iota in H.
        destruct (contains S_aNR fmt); [injection H as <-; reflexivity | discriminate H].
      - change (str_eqb S_adotNR S_NR) with false in H. change (str_eqb S_adotNR S_aNR) with false in H. change (str_eqb S_adotNR S_adotNR) with true in H.
        cbn iota in H. destruct (contains S_adotNR fmt); [injection H as <-; reflexivity | discriminate H]. }
    assert (B : forall x a, In x [S_bNR; S_bdotNR] -> nr_lookup fl fmt jm x = Some a -> a = NRB).
    { intros x a Hin H. cbn [In] in Hin. destruct Hin as [<-|[<-|[]]]; unfold nr_lookup in H.
      - change (str_eqb S_bNR S_NR) with false in H. change (str_eqb S_bNR S_aNR) with false in H. change (str_eqb S_bNR S_adotNR) with false in H.
        change (str_eqb S_bNR S_bNR) with true in H. cbn iota in H. destruct jm; [injection H as <-; reflexivity | discriminate H].
      - change (str_eqb S_bdotNR S_NR) with false in H. change (str_eqb S_bdotNR S_aNR) with false in H. change (str_eqb S_bdotNR S_adotNR) with false in H.
        change (str_eqb S_bdotNR S_bNR) with false in H. change (str_eqb S_bdotNR S_bdotNR) with true in H. cbn iota in H.
        destruct (join_init_emitted fl jm && contains S_bdotNR fmt); [injection H as <-; reflexivity | discriminate H]. }
    intros x y a b Hx Hy [[I1 I2]|[I1 I2]].
    + rewrite (A x a I1 Hx), (A y b I2 Hy). split; reflexivity.
    + rewrite (B x a I1 Hx), (B y b I2 Hy). split; reflexivity.
Qed.

(* ================================================================== examples, boundaries, refutations *)
From Coq Require String.
Import String.StringSyntax.

(* token boundaries: aa1, a1b, _a1, a1_, xa[1], a1a2 are not the variable a1;  -a1, (a1), a1, and [a[1]] are *)
Example boundary_examples :
  numbered_vars ($"select aa1 + a1b + _a1 + a1_ + xa[1] + a1a2 + 1a1 + a_1") 97 = [] /\
  numbered_vars ($"-a1") 97 = [($"a1", (true, 0))] /\
  numbered_vars ($"(a1)") 97 = [($"a1", (true, 0))] /\
  numbered_vars ($"a1,") 97 = [($"a1", (true, 0))] /\
  numbered_vars ($"x[a[1]]") 97 = [($"a[1]", (true, 0))] /\
  numbered_vars ($"a1b2") 98 = [] /\ numbered_vars ($"a1.b2") 98 = [($"b2", (true, 1))].
Proof. vm_compute. repeat split. Qed.

(* digits: decimal, leading zeros are not variables, a0 is not a field variable, a large N is fine *)
Example digit_examples :
  numbered_vars ($"select a01, a0, a[0], a[01], a00012, a010") 97 = [] /\
  numbered_vars ($"select a10, a[12]") 97 = [($"a10", (true, 9)); ($"a[12]", (true, 11))] /\
  lookup LPy 97 (numbered_vars ($"select a123456789012345678901234567890") 97) ($"a123456789012345678901234567890")
    = Some 123456789012345678901234567889 /\
  numbered_vars_fl LJs ($"select a9007199254740993") 97 = None /\
  (exists m, numbered_vars_fl LJs ($"select a9007199254740991") 97 = Some m /\ lookup LJs 97 m ($"a9007199254740991") = Some 9007199254740990).
Proof. vm_compute. repeat split. eexists. split; reflexivity. Qed.

(* a[ 1 ] (blanks inside the brackets) is not matched; text inside a string literal IS scanned (the scanners get the whole
   cleaned query): a harmless extra variable *)
Example what_the_code_guarantees :
  numbered_vars ($"select a[ 1 ], a [2]") 97 = [] /\
  numbered_vars ($"select 'a5', ""x a[7]""") 97 = [($"a5", (true, 4)); ($"a[7]", (true, 6))].
Proof. vm_compute. split; reflexivity. Qed.

(* the hypothesis "not directly after a closing bracket" of occurs_index cannot be dropped *)
Example index_boundary_needed :
  let q := $"a[1]a[2]" in
  (exists pre post, q = pre ++ index_tok 97 2 ++ post /\ bound_before pre) /\
  map_get (index_tok 97 2) (numbered_vars q 97) = None /\ lookup LPy 97 (numbered_vars q 97) (index_tok 97 2) = None.
Proof. split; [exists ($"a[1]"), []; split; reflexivity | split; reflexivity]. Qed.

(* non-vacuity of var_index / aN_bracket_equiv on a query with both spellings *)
Example var_index_nonvacuous :
  let q := $"select a2, (a[3]), b1 where a[3] != 'x'" in
  occurs_name q 97 2 /\ occurs_index q 97 3 /\ occurs_name q 98 1 /\
  lookup LPy 97 (numbered_vars q 97) ($"a2") = Some 1 /\ lookup LJs 97 (numbered_vars q 97) ($"a[3]") = Some 2 /\
  field_expr LPy TB (numbered_vars q 98) ($"b1") = Some (EFld TB 0).
Proof.
  cbv zeta. split; [|split; [|split]].
  - exists ($"select "), ($", (a[3]), b1 where a[3] != 'x'"). split; [reflexivity | split; reflexivity].
  - exists ($"select a2, ("), ($"), b1 where a[3] != 'x'"). split; [reflexivity|]. vm_compute. split; [reflexivity | discriminate].
  - exists ($"select a2, (a[3]), "), ($" where a[3] != 'x'"). split; [reflexivity | split; reflexivity].
  - vm_compute. repeat split.
Qed.

(* REFUTED for rbql-js when the table has a header with a column called like the number: the variable map of rbql-js for the query
   select a[1]  over the header  c, d, 1  holds  a[1] -> field 0  (parse_array_variables)  and  a["1"] -> field 2  (parse_dictionary_variables:
   the name 1 occurs in the query); both lines assign the SAME property of the record object and the later one wins, so the
   token a[1] reads field 2 while a1 reads field 0.  In Python the keys are the int 1 and the str "1": no clash. *)
Example js_numeric_column_refuted :
  let m := [($"a1", (true, 0)); ($"a[1]", (true, 0)); ($"a[""1""]", (true, 2)); ($"a['1']", (false, 2))] in
  lookup LJs 97 m ($"a1") = Some 0 /\ lookup LJs 97 m ($"a[1]") = Some 2 /\
  lookup LPy 97 m ($"a1") = Some 0 /\ lookup LPy 97 m ($"a[1]") = Some 0 /\ lookup LPy 97 m ($"a[""1""]") = Some 2 /\ lookup LPy 97 m ($"a['1']") = Some 2.
Proof. vm_compute. repeat split. Qed.

(* REFUTED for rbql-py: b.NR in a JOIN query that names no field of the join table (join map empty, hence falsy) *)
Example py_bdotNR_refuted :
  let fmt := $"select a1, b.NR join B on NR == b.NR" in
  nr_lookup LPy fmt (Some []) S_bNR = Some NRB /\ nr_lookup LPy fmt (Some []) S_bdotNR = None /\
  nr_lookup LJs fmt (Some []) S_bdotNR = Some NRB /\ nr_lookup LPy fmt (Some [($"b1", (true, 0))]) S_bdotNR = Some NRB.
Proof. vm_compute. repeat split. Qed.
