(* TextLayer_Proofs.v — the text layer (TextLayer.v) is independent of how the bytes are cut into raw reads:
     nl_stream_spec        newline layer: the concatenated outputs are nl_norm of the concatenated inputs, for every list of pieces
     text_layer_valid      byte + newline layer: decodable bytes, every partition -> pieces concatenating to nl_norm (decode bytes)
     text_layer_invalid    undecodable bytes, every partition -> the decoding error
     py_bytes_closed       the Python reader over the text layer = records_of_text (decode bytes) / an IO-handling error *)
From RBQL Require Import Base Lines CsvSpec Utf8 Reader Utf8_Proofs Reader_Proofs Newline_Proofs TextLayer.

(* ------------------------------------------------------------------ nl_norm and concatenation *)

Fixpoint last_is_cr (s : str) : bool :=
  match s with
  | [] => false
  | [c] => N.eqb c CR
  | _ :: t => last_is_cr t
  end.

Definition starts_lf (s : str) : bool := match s with c :: _ => N.eqb c LF | [] => false end.

Lemma last_is_cr_cons c d t : last_is_cr (c :: d :: t) = last_is_cr (d :: t).
Proof. reflexivity. Qed.

Lemma nl_norm_cr_cons d t : nl_norm (CR :: d :: t) = if N.eqb d LF then LF :: nl_norm t else LF :: nl_norm (d :: t).
Proof. reflexivity. Qed.

Lemma nl_norm_other c t : N.eqb c CR = false -> nl_norm (c :: t) = c :: nl_norm t.
Proof. intros E. cbn [nl_norm]. rewrite E. reflexivity. Qed.

(* translation distributes over a cut unless the cut separates a CR from a LF *)
Lemma nl_norm_app_len : forall n a b, (length a <= n)%nat ->
  last_is_cr a = false \/ starts_lf b = false -> nl_norm (a ++ b) = nl_norm a ++ nl_norm b.
Proof.
  induction n as [|n IH]; intros a b Hl Hc.
  - destruct a; [reflexivity|cbn in Hl; lia].
  - destruct a as [|c t]; [reflexivity|].
    cbn [length] in Hl.
    destruct (N.eqb c CR) eqn:Ec.
    + apply N.eqb_eq in Ec. subst c.
      destruct t as [|d t'].
      * (* a = [CR]: b does not start with LF *)
        destruct Hc as [Hc|Hc]; [cbn in Hc; discriminate|].
        destruct b as [|e b']; [reflexivity|].
        cbn [starts_lf] in Hc. cbn [app]. rewrite nl_norm_cr_cons, Hc. reflexivity.
      * cbn [app]. rewrite !nl_norm_cr_cons.
        destruct (N.eqb d LF) eqn:Ed.
        -- cbn [app]. f_equal. apply IH; [cbn [length] in Hl; lia|].
           destruct Hc as [Hc|Hc]; [|right; exact Hc]. left.
           rewrite last_is_cr_cons in Hc. destruct t' as [|e t'']; [reflexivity|].
           rewrite last_is_cr_cons in Hc. exact Hc.
        -- cbn [app]. f_equal. change (d :: t' ++ b) with ((d :: t') ++ b).
           apply IH; [lia|]. destruct Hc as [Hc|Hc]; [left|right; exact Hc].
           rewrite last_is_cr_cons in Hc. exact Hc.
    + cbn [app]. rewrite !(nl_norm_other c _ Ec). cbn [app]. f_equal. apply IH; [lia|].
      destruct Hc as [Hc|Hc]; [left|right; exact Hc].
      destruct t as [|d t']; [reflexivity|]. rewrite last_is_cr_cons in Hc. exact Hc.
Qed.

Lemma nl_norm_app a b :
  last_is_cr a = false \/ starts_lf b = false -> nl_norm (a ++ b) = nl_norm a ++ nl_norm b.
Proof. apply (nl_norm_app_len (length a)). lia. Qed.

Lemma strip_last_cr_some : forall s o, strip_last_cr s = Some o -> s = o ++ [CR].
Proof.
  induction s as [|c t IH]; intros o H; [discriminate|].
  destruct t as [|d t'].
  - cbn in H. destruct (N.eqb c CR) eqn:Ec; [|discriminate]. apply N.eqb_eq in Ec. inversion H; subst. reflexivity.
  - change (strip_last_cr (c :: d :: t')) with (option_map (cons c) (strip_last_cr (d :: t'))) in H.
    destruct (strip_last_cr (d :: t')) as [o'|] eqn:E; [|discriminate].
    cbn in H. inversion H; subst. rewrite (IH o' eq_refl). reflexivity.
Qed.

Lemma strip_last_cr_none : forall s, strip_last_cr s = None -> last_is_cr s = false.
Proof.
  induction s as [|c t IH]; intros H; [reflexivity|].
  destruct t as [|d t'].
  - cbn in H. cbn. destruct (N.eqb c CR); [discriminate|reflexivity].
  - change (strip_last_cr (c :: d :: t')) with (option_map (cons c) (strip_last_cr (d :: t'))) in H.
    rewrite last_is_cr_cons. apply IH. destruct (strip_last_cr (d :: t')); [discriminate|reflexivity].
Qed.

(* ------------------------------------------------------------------ (b) the newline layer *)

(* the CR held back between two calls *)
Definition pre (pendingcr : bool) : str := if pendingcr then [CR] else [].

(* one non-final call: what it returns plus what it holds back is the translation of what it was given plus what it held *)
Lemma nl_decode_step pend s rest o p1 :
  nl_decode pend s false = (o, p1) ->
  nl_norm (pre pend ++ s ++ rest) = o ++ nl_norm (pre p1 ++ rest).
Proof.
  unfold nl_decode.
  assert (G : forall out1, out1 = pre pend ++ s ->
            (let '(out2, p2) := match strip_last_cr out1 with Some o' => (o', true) | None => (out1, false) end in
             (nl_norm out2, p2)) = (o, p1) ->
            nl_norm (pre pend ++ s ++ rest) = o ++ nl_norm (pre p1 ++ rest)).
  { intros out1 E H. rewrite app_assoc, <- E.
    destruct (strip_last_cr out1) as [o'|] eqn:Es.
    - inversion H; subst o p1. rewrite (strip_last_cr_some _ _ Es), <- app_assoc.
      apply nl_norm_app. right. reflexivity.
    - inversion H; subst o p1. cbn [pre app]. apply nl_norm_app. left. apply strip_last_cr_none. exact Es. }
  destruct pend.
  - destruct s as [|c s'].
    + cbn. intros H. inversion H; subst. reflexivity.
    + cbn [andb]. apply G. reflexivity.
  - cbn [andb]. apply G. reflexivity.
Qed.

(* a final call returns the translation of everything that is left *)
Lemma nl_decode_final pend s : fst (nl_decode pend s true) = nl_norm (pre pend ++ s).
Proof.
  unfold nl_decode. destruct pend.
  - destruct s; reflexivity.
  - reflexivity.
Qed.

Theorem nl_stream_spec : forall pieces pend, concat (nl_stream pend pieces) = nl_norm (pre pend ++ concat pieces).
Proof.
  induction pieces as [|p r IH]; intros pend.
  - cbn [nl_stream concat]. rewrite nl_decode_final, !app_nil_r. reflexivity.
  - cbn [nl_stream concat]. destruct (nl_decode pend p false) as [o p1] eqn:E.
    cbn [concat]. rewrite IH. symmetry. apply nl_decode_step. exact E.
Qed.

Lemma nl_stream_length : forall pieces pend, length (nl_stream pend pieces) = S (length pieces).
Proof.
  induction pieces as [|p r IH]; intros pend; [reflexivity|].
  cbn [nl_stream]. destruct (nl_decode pend p false) as [o p1]. cbn [length]. rewrite IH. reflexivity.
Qed.

Lemma nl_stream_last_spec_ne : forall pieces pend, pieces <> [] ->
  concat (nl_stream_last pend pieces) = nl_norm (pre pend ++ concat pieces).
Proof.
  induction pieces as [|p r IH]; intros pend Hne; [congruence|].
  destruct r as [|q r'].
  - cbn [nl_stream_last concat]. rewrite nl_decode_final, !app_nil_r. reflexivity.
  - change (nl_stream_last pend (p :: q :: r')) with
      (let '(o, p1) := nl_decode pend p false in o :: nl_stream_last p1 (q :: r')).
    destruct (nl_decode pend p false) as [o p1] eqn:E.
    cbn [concat]. rewrite (IH p1 ltac:(discriminate)).
    change (p ++ concat (q :: r')) with (p ++ concat (q :: r')). symmetry. apply nl_decode_step. exact E.
Qed.

(* nl_stream / nl_stream_last are particular call sequences of the one decode function *)
Lemma nl_stream_trace : forall pieces pend,
  nl_stream pend pieces = map fst (nl_trace pend (map (fun p => (p, false)) pieces ++ [([], true)])).
Proof.
  induction pieces as [|p r IH]; intros pend.
  - cbn [nl_stream map app nl_trace]. destruct (nl_decode pend [] true) as [o p1]. reflexivity.
  - cbn [nl_stream map app nl_trace]. destruct (nl_decode pend p false) as [o p1]. cbn [map fst]. rewrite IH. reflexivity.
Qed.

Lemma nl_stream_last_trace : forall pieces pend,
  nl_stream_last pend pieces = map fst (nl_trace pend (map (fun p => (p, false)) (removelast pieces) ++
                                                     match pieces with [] => [] | _ => [(last pieces [], true)] end)).
Proof.
  induction pieces as [|p r IH]; intros pend; [reflexivity|].
  destruct r as [|q r'].
  - cbn [nl_stream_last removelast map app last nl_trace]. destruct (nl_decode pend p true) as [o p1]. reflexivity.
  - change (nl_stream_last pend (p :: q :: r')) with
      (let '(o, p1) := nl_decode pend p false in o :: nl_stream_last p1 (q :: r')).
    change (removelast (p :: q :: r')) with (p :: removelast (q :: r')).
    change (last (p :: q :: r') []) with (last (q :: r') []).
    cbn [map app nl_trace]. destruct (nl_decode pend p false) as [o p1]. cbn [map fst]. rewrite (IH p1). reflexivity.
Qed.

(* the newline layer: whatever the piece boundaries (a CR at the end of a piece, a CR LF pair cut in two, runs of CRs, empty
   pieces), the outputs concatenate to the translation of the whole text - with a separate flush call or with final=True on the
   last piece *)
Theorem nl_layer_partition_invariant (pieces : list str) :
  concat (nl_stream false pieces) = nl_norm (concat pieces) /\
  concat (nl_stream_last false pieces) = nl_norm (concat pieces).
Proof.
  split; [exact (nl_stream_spec pieces false)|].
  destruct pieces as [|p r]; [reflexivity|].
  exact (nl_stream_last_spec_ne (p :: r) false ltac:(discriminate)).
Qed.

(* ------------------------------------------------------------------ (c) byte layer + newline layer *)

(* CPython's variant of the chunk decoder: the same result wherever the state machine accepts the piece ... *)
Lemma decode_chunk_py_ok : forall bs st s st',
  decode_chunk st bs = Some (s, st') -> decode_chunk_py st bs = Some (s, st', false).
Proof.
  induction bs as [|b r IH]; intros st s st' H.
  - cbn in H. inversion H; subst. reflexivity.
  - cbn [decode_chunk] in H. cbn [decode_chunk_py].
    destruct (decode_byte st b) as [[o st1]|]; [|discriminate].
    destruct (decode_chunk st1 r) as [[s2 st2]|] eqn:E; [|discriminate].
    rewrite (IH _ _ _ E). inversion H; subst. reflexivity.
Qed.

(* ... and where the state machine rejects it, either the same rejection or a held surrogate pair *)
Lemma decode_chunk_py_fail : forall bs st,
  decode_chunk st bs = None ->
  match decode_chunk_py st bs with
  | None => True
  | Some (_, _, sg) => sg = true
  end.
Proof.
  induction bs as [|b r IH]; intros st H; [discriminate|].
  cbn [decode_chunk] in H. cbn [decode_chunk_py].
  destruct (decode_byte st b) as [[o st1]|].
  - destruct (decode_chunk st1 r) as [[s2 st2]|] eqn:E; [discriminate|].
    specialize (IH st1 E). destruct (decode_chunk_py st1 r) as [[[s3 st3] sg]|]; [exact IH|exact I].
  - destruct r; [|exact I].
    destruct (Nat.eqb (d_needed st) 2 && N.eqb (d_upper st) 159 && (160 <=? b)%N && (b <=? 191)%N); [reflexivity|exact I].
Qed.

(* once a truncated surrogate pair is held, the run ends in the decoding error whatever follows *)
Lemma text_layer_from_surr : forall raws d p,
  text_layer_from CUtf8 {| tl_dec := d; tl_surr := true; tl_pendingcr := p |} raws = None.
Proof.
  induction raws as [|r rest IH]; intros d p.
  - reflexivity.
  - cbn [text_layer_from]. unfold tl_decode, byte_decode. cbn [tl_dec tl_surr tl_pendingcr].
    destruct r as [|b r']; [|reflexivity].
    destruct (nl_decode p [] false) as [o p1]. rewrite IH. reflexivity.
Qed.

Lemma text_layer_from_utf8 : forall raws d p,
  text_layer_from CUtf8 {| tl_dec := d; tl_surr := false; tl_pendingcr := p |} raws =
  option_map (nl_stream p) (decode_streaming_from d raws).
Proof.
  induction raws as [|r rest IH]; intros d p.
  - cbn [text_layer_from decode_streaming_from nl_stream]. unfold tl_decode, byte_decode.
    cbn [tl_dec tl_surr tl_pendingcr decode_chunk_py].
    destruct (decode_flush d); cbn [andb orb negb option_map].
    + cbn [nl_stream]. destruct (nl_decode p [] true) as [o p1]. reflexivity.
    + reflexivity.
  - cbn [text_layer_from decode_streaming_from]. unfold tl_decode, byte_decode. cbn [tl_dec tl_surr tl_pendingcr].
    destruct (decode_chunk d r) as [[s d1]|] eqn:Ec.
    + rewrite (decode_chunk_py_ok _ _ _ _ Ec). cbn [andb]. destruct (nl_decode p s false) as [o p1] eqn:E.
      rewrite IH. destruct (decode_streaming_from d1 rest) as [l|]; [|reflexivity].
      cbn [option_map nl_stream]. rewrite E. reflexivity.
    + pose proof (decode_chunk_py_fail _ _ Ec) as F.
      destruct (decode_chunk_py d r) as [[[s3 d3] sg]|]; [|reflexivity].
      subst sg. cbn [andb]. destruct (nl_decode p s3 false) as [o p1].
      rewrite text_layer_from_surr. reflexivity.
Qed.

Lemma text_layer_from_latin1 : forall raws d sg p,
  text_layer_from CLatin1 {| tl_dec := d; tl_surr := sg; tl_pendingcr := p |} raws = Some (nl_stream p raws).
Proof.
  induction raws as [|r rest IH]; intros d sg p.
  - cbn [text_layer_from nl_stream]. unfold tl_decode, byte_decode, decode_latin1. cbn [tl_dec tl_surr tl_pendingcr].
    change (@nil byte) with (@nil ch). destruct (nl_decode p [] true) as [o p1] eqn:E. reflexivity.
  - cbn [text_layer_from nl_stream]. unfold tl_decode, byte_decode, decode_latin1. cbn [tl_dec tl_surr tl_pendingcr].
    destruct (nl_decode p r false) as [o p1] eqn:E. rewrite IH. reflexivity.
Qed.

(* latin-1: every byte string decodes, code point = byte value *)
Lemma decode_bytes_latin1 b : decode_bytes CLatin1 b = Some b.
Proof. reflexivity. Qed.

Theorem text_layer_valid e b t :
  decode_bytes e b = Some t -> forall raws, concat raws = b ->
  exists tps, text_layer e raws = Some tps /\ concat tps = nl_norm t /\ length tps = S (length raws).
Proof.
  intros Hd raws Hc. unfold text_layer, tl_init. destruct e.
  - cbn [decode_bytes] in Hd.
    destruct (utf8_streaming b (ex_intro _ t Hd) raws Hc) as (l & Hs & Hw & Hl).
    rewrite text_layer_from_utf8. unfold decode_streaming in Hs. rewrite Hs. cbn [option_map].
    exists (nl_stream false l). split; [reflexivity|]. split.
    + rewrite nl_stream_spec. cbn [pre app]. rewrite Hd in Hw. inversion Hw; subst. reflexivity.
    + rewrite nl_stream_length, Hl. reflexivity.
  - cbn [decode_bytes decode_latin1] in Hd. inversion Hd; subst t.
    rewrite text_layer_from_latin1. exists (nl_stream false raws). split; [reflexivity|]. split.
    + rewrite nl_stream_spec. cbn [pre app]. f_equal. exact Hc.
    + apply nl_stream_length.
Qed.

Theorem text_layer_invalid e b :
  decode_bytes e b = None -> forall raws, concat raws = b -> text_layer e raws = None.
Proof.
  intros Hd raws Hc. destruct e; [|discriminate].
  cbn [decode_bytes] in Hd. unfold text_layer, tl_init. rewrite text_layer_from_utf8.
  pose proof (utf8_invalid_rejected b Hd raws Hc) as H. unfold decode_streaming in H. rewrite H. reflexivity.
Qed.

(* the call-by-call trace computes the same run *)
Lemma text_layer_trace_from_spec : forall e raws st,
  text_layer_from e st raws =
  (let '(l, ok) := text_layer_trace_from e st raws in if ok then Some (map (fun o : obs => fst (fst o)) l) else None).
Proof.
  intros e. induction raws as [|r rest IH]; intros st.
  - cbn [text_layer_from text_layer_trace_from]. destruct (tl_decode e st [] true) as [[o st1]|]; reflexivity.
  - cbn [text_layer_from text_layer_trace_from]. destruct (tl_decode e st r false) as [[o st1]|]; [|reflexivity].
    rewrite IH. destruct (text_layer_trace_from e st1 rest) as [l ok]. destruct ok; reflexivity.
Qed.

Theorem text_layer_trace_spec e raws :
  text_layer e raws =
  (let '(l, ok) := text_layer_trace e raws in if ok then Some (map (fun o : obs => fst (fst o)) l) else None).
Proof. apply text_layer_trace_from_spec. Qed.

(* ------------------------------------------------------------------ (d) the reader over the text layer *)

Lemma concat_drop_empty : forall ps, concat (drop_empty ps) = concat ps.
Proof.
  induction ps as [|p r IH]; [reflexivity|].
  unfold drop_empty in *. cbn [filter]. destruct p as [|c p']; cbn [is_nil negb concat app]; [exact IH|].
  rewrite IH. reflexivity.
Qed.

Lemma drop_empty_nonempty : forall ps, Forall nonempty (drop_empty ps).
Proof.
  induction ps as [|p r IH]; [constructor|].
  unfold drop_empty in *. cbn [filter]. destruct p as [|c p']; cbn [is_nil negb]; [exact IH|].
  constructor; [unfold nonempty; discriminate|exact IH].
Qed.

(* for any way the decoded text is re-cut before the reader sees it (TextIOWrapper.read(n) gathers the decoded pieces in its own
   buffer and hands out at most n characters) *)
Theorem py_bytes_rechunked split c cs e raws t tps pieces :
  (1 <= cs)%nat -> decode_bytes e (concat raws) = Some t -> text_layer e raws = Some tps ->
  Forall nonempty pieces -> concat pieces = concat tps ->
  run_py split c cs pieces = records_of_text split c t.
Proof.
  intros Hcs Hd Ht Hne Hc.
  destruct (text_layer_valid e (concat raws) t Hd raws eq_refl) as (tps' & Ht' & Hn & _).
  rewrite Ht in Ht'. inversion Ht'; subst tps'.
  apply py_records_translated; [exact Hcs|exact Hne|]. left. rewrite Hc. exact Hn.
Qed.

Theorem py_bytes_closed split c cs e raws :
  (1 <= cs)%nat ->
  match decode_bytes e (concat raws) with
  | Some t => run_py_bytes split c cs e raws = BRes (records_of_text split c t)
  | None => run_py_bytes split c cs e raws = BIOError
  end.
Proof.
  intros Hcs. unfold run_py_bytes. destruct (decode_bytes e (concat raws)) as [t|] eqn:Hd.
  - destruct (text_layer_valid e (concat raws) t Hd raws eq_refl) as (tps & Ht & Hn & _).
    rewrite Ht. f_equal.
    apply (py_bytes_rechunked split c cs e raws t tps); auto.
    + apply drop_empty_nonempty.
    + apply concat_drop_empty.
  - rewrite (text_layer_invalid e (concat raws) Hd raws eq_refl). reflexivity.
Qed.

(* stated with the byte string first: every partition of b into raw reads, every chunk size *)
Corollary py_bytes_partition_invariant split c e (b : bytes) :
  forall raws1 raws2 cs1 cs2, (1 <= cs1)%nat -> (1 <= cs2)%nat -> concat raws1 = b -> concat raws2 = b ->
  run_py_bytes split c cs1 e raws1 = run_py_bytes split c cs2 e raws2.
Proof.
  intros raws1 raws2 cs1 cs2 H1 H2 E1 E2.
  pose proof (py_bytes_closed split c cs1 e raws1 H1) as A. pose proof (py_bytes_closed split c cs2 e raws2 H2) as B.
  rewrite E1 in A. rewrite E2 in B. destruct (decode_bytes e b); congruence.
Qed.

Corollary py_bytes_closed_b split c cs e (b : bytes) raws :
  (1 <= cs)%nat -> concat raws = b ->
  match decode_bytes e b with
  | Some t => run_py_bytes split c cs e raws = BRes (records_of_text split c t)
  | None => run_py_bytes split c cs e raws = BIOError
  end.
Proof. intros Hcs Hb. subst b. apply py_bytes_closed. exact Hcs. Qed.
