(* Width_Proofs.v — every record a SELECT offers to its writer has as many fields as the select list has columns *)
From RBQL Require Import Base Value Expr Writers Join Agg Engine Spec Engine_Proofs Header Header_Proofs.

Section W.
Variable expr : Type.
Variable eval : env -> expr -> res val.

Definition b_width (b : binfo) : nat := match b with BRec _ _ r => length r | _ => 0 end.

Definition item_width (na nb : nat) (it : item expr) : nat :=
  match it with IStar => na + nb | IStarA => na | IStarB => nb | _ => 1 end.
Definition items_width (na nb : nat) (items : list (item expr)) : nat :=
  fold_right (fun h acc => item_width na nb h + acc) 0 items.

Lemma eval_items_width en : forall items un sl un',
  eval_items eval en items un = Ok (sl, un') ->
  length sl = items_width (length (e_a en)) (b_width (e_b en)) items.
Proof.
  induction items as [|it items IH]; intros un sl un' H.
  - cbn in H. injection H as <- <-. reflexivity.
  - cbn [eval_items] in H. destruct it as [e| | | |e|k e].
    + apply bind_ok in H. destruct H as [v [_ H]]. apply bind_ok in H. destruct H as [[s u] [Hr H]]. injection H as <- <-.
      cbn. f_equal. eapply IH; eassumption.
    + apply bind_ok in H. destruct H as [f [Hf H]]. apply bind_ok in H. destruct H as [[s u] [Hr H]]. injection H as <- <-.
      cbn [fst]. rewrite app_length. unfold lift. rewrite map_length. cbn [items_width fold_right item_width]. rewrite (IH un s u Hr).
      unfold star_fields in Hf. destruct (e_b en) as [| |bnr bnf rb]; try discriminate; injection Hf as <-; cbn [b_width]; rewrite ?app_length; unfold items_width; lia.
    + apply bind_ok in H. destruct H as [[s u] [Hr H]]. injection H as <- <-.
      cbn [fst]. rewrite app_length. unfold lift. rewrite map_length. cbn. rewrite (IH un s u Hr). reflexivity.
    + apply bind_ok in H. destruct H as [f [Hf H]]. apply bind_ok in H. destruct H as [[s u] [Hr H]]. injection H as <- <-.
      cbn [fst]. rewrite app_length. unfold lift. rewrite map_length. cbn [items_width fold_right item_width]. rewrite (IH un s u Hr).
      unfold record_b in Hf. destruct (e_b en) as [| |bnr bnf rb]; try discriminate; injection Hf as <-; reflexivity.
    + apply bind_ok in H. destruct H as [v [_ H]].
      assert (Hx : exists s u, eval_items eval en items (Some v) = Ok (s, u) /\ sl = SlUnnest :: s /\ un' = u).
      { destruct v as [[| |z|str0|fq]|l]; destruct un as [u0|]; try discriminate;
          apply bind_ok in H; destruct H as [[s1 u1] [Hr H]]; injection H as <- <-; exists s1, u1; repeat split; assumption. }
      destruct Hx as [s [u [Hr [-> ->]]]]. cbn. f_equal. eapply IH; eassumption.
    + apply bind_ok in H. destruct H as [v [_ H]]. apply bind_ok in H. destruct H as [[s u] [Hr H]]. injection H as <- <-.
      cbn. f_equal. eapply IH; eassumption.
Qed.

Lemma subst_unnest_length sl v : length (subst_unnest sl v) = length sl.
Proof. induction sl as [|[x|] sl IH]; cbn; [reflexivity | f_equal; assumption | f_equal; assumption]. Qed.

Lemma plain_row_length : forall sl r, plain_row sl = Ok r -> length r = length sl.
Proof.
  induction sl as [|[x|] sl IH]; intros r H; cbn in H; try discriminate.
  - injection H as <-. reflexivity.
  - apply bind_ok in H. destruct H as [r' [Hr H]]. injection H as <-. cbn. f_equal. apply IH. assumption.
Qed.

(* every row a select list offers has exactly the select list's number of columns *)
Theorem select_rows_width (q : query expr) en items rows :
  q_kind q = QSelect items -> select_rows eval q en = Ok rows ->
  Forall (fun kr => length (snd kr) = items_width (length (e_a en)) (b_width (e_b en)) items) rows.
Proof.
  intros Hk H. unfold select_rows in H. apply bind_ok in H. destruct H as [ok [_ H]].
  destruct ok; cbn [negb] in H; [|injection H as <-; constructor]. rewrite Hk in H.
  apply bind_ok in H. destruct H as [[sl un] [Hi H]]. apply bind_ok in H. destruct H as [k [_ H]]. cbn [fst snd] in H.
  pose proof (eval_items_width en items None sl un Hi) as Hw. destruct un as [u|].
  - apply bind_ok in H. destruct H as [vs [_ H]]. injection H as <-. rewrite Forall_forall. intros kr Hin.
    apply in_map_iff in Hin. destruct Hin as [v [<- _]]. cbn [snd]. rewrite subst_unnest_length. exact Hw.
  - apply bind_ok in H. destruct H as [rw [Hp H]]. injection H as <-. constructor; [|constructor]. cbn [snd].
    rewrite (plain_row_length sl rw Hp). exact Hw.
Qed.

(* the header of a select list has as many names as each of its records has fields, for rectangular tables with a
   header: the select list's header shape [his] and its engine items [items] agree column for column *)
Theorem header_matches_rows (q : query expr) en items his ih jh h rows :
  q_kind q = QSelect items -> select_rows eval q en = Ok rows ->
  map (hitem_width (length ih) (length jh)) his = map (item_width (length ih) (length jh)) items ->
  length (e_a en) = length ih -> b_width (e_b en) = length jh ->
  output_header (Some ih) (Some jh) (HQSelect his false) = HSome h ->
  Forall (fun kr => length (snd kr) = length h) rows.
Proof.
  intros Hk Hr Hsh Ha Hb Hh. pose proof (select_rows_width q en items rows Hk Hr) as F.
  pose proof (header_width_select ih (Some jh) his false h Hh) as Hl. cbn [Nat.add] in Hl. rewrite Ha, Hb in F.
  assert (E : hitems_width (length ih) (length jh) his = items_width (length ih) (length jh) items).
  { clear -Hsh. revert items Hsh. unfold hitems_width, items_width. induction his as [|x his IH]; intros [|y items] H; try discriminate; [reflexivity|].
    cbn [map] in H. injection H as H1 H2. cbn [fold_right]. rewrite H1, (IH items H2). reflexivity. }
  eapply Forall_impl; [|exact F]. intros kr Hkr. cbn beta in Hkr. rewrite Hkr, Hl, E. reflexivity.
Qed.

End W.
