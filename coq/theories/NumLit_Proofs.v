(* NumLit_Proofs.v - theorems about NumLit.v (which strings are numbers).
   numlit_core_agree      : on the common core [+-]? digits (. digits)? (numeric_core) the old model Value.parse_float succeeds and
                            py_float_lit and js_number_lit return its value; without a dot Value.parse_int succeeds, the float value
                            is that integer, and py_int_lit returns it (at most 4300 digits: CPython's default limit).  The old model
                            is the restriction of the new one.
   py_js_agree            : under common_notation (ASCII, no underscore, no 0x / 0o / 0b prefix, no spelling of an infinity or of
                            NaN) py_float_lit s = js_number_lit s: same strings are numbers, same value, same errors.
   py_only_refuted, js_only_refuted : 1_0 is a number for Python only, 0x10 for JavaScript only (vm_compute).
   int_roundtrip          : the decimal text of an integer z (JsKey.int_text = str(z) = String(z)) is read back as z by py_int_lit
                            (|z| < 10^4300), py_float_lit and js_number_lit.
   nl_ws_invariant        : surrounding white space does not matter.
   decimal_lit_plus / decimal_lit_minus : an explicit + changes nothing, a - negates (Qopp), for a body without a sign. *)
From RBQL Require Import Base Value Parser Parser_Combine_Proofs JsKey JsKey_Proofs NumLit.
From Coq Require Import QArith Qreduction.
Local Open Scope N_scope.

(* ------------------------------------------------------------------ characters *)
Definition core_char (c : ch) : bool := nl_digit c || N.eqb c 43 || N.eqb c 45 || N.eqb c 46.

Ltac nbool :=
  repeat match goal with
         | H : _ && _ = true |- _ => apply andb_prop in H; destruct H
         | H : _ || _ = true |- _ => apply orb_prop in H; destruct H
         | H : N.leb _ _ = true |- _ => apply N.leb_le in H
         | H : N.ltb _ _ = true |- _ => apply N.ltb_lt in H
         | H : N.eqb _ _ = true |- _ => apply N.eqb_eq in H
         end.

Lemma core_char_cases : forall c, core_char c = true -> (48 <= c <= 57) \/ c = 43 \/ c = 45 \/ c = 46.
Proof. intros c H. unfold core_char, nl_digit in H. nbool; lia. Qed.

Lemma nl_digit_range : forall c, nl_digit c = true <-> 48 <= c <= 57.
Proof.
  intro c. unfold nl_digit. split; intro H.
  - nbool. lia.
  - destruct H as [A B]. apply N.leb_le in A, B. rewrite A, B. reflexivity.
Qed.

Lemma eqb_false_of : forall a b, a <> b -> N.eqb a b = false.
Proof. intros a b H. apply N.eqb_neq. exact H. Qed.

Lemma core_char_not_ws : forall c, core_char c = true -> is_ws c = false.
Proof.
  intros c H. apply core_char_cases in H. unfold is_ws.
  rewrite !eqb_false_of by lia. reflexivity.
Qed.

Lemma core_char_ascii : forall c, core_char c = true -> is_ascii c = true.
Proof. intros c H. apply core_char_cases in H. unfold is_ascii. apply N.ltb_lt. lia. Qed.

Lemma forallb_imp : forall (P Q : ch -> bool) s, (forall c, P c = true -> Q c = true) -> forallb P s = true -> forallb Q s = true.
Proof.
  intros P Q s H. induction s as [|c s IH]; [reflexivity|]. cbn [forallb]. intro E. apply andb_prop in E. destruct E as [A B].
  rewrite (H c A), (IH B). reflexivity.
Qed.

Lemma forallb_rev : forall (P : ch -> bool) s, forallb P s = true -> forallb P (rev s) = true.
Proof. intros P s H. apply forallb_forall. intros x I. apply in_rev in I. exact (proj1 (forallb_forall P s) H x I). Qed.

(* ------------------------------------------------------------------ strip *)
Lemma lstrip_keep : forall f s, match s with [] => True | c :: _ => f c = false end -> lstrip_by f s = s.
Proof. intros f [|c t] H; [reflexivity|]. cbn [lstrip_by]. rewrite H. reflexivity. Qed.

Lemma lstrip_ws_app : forall f w s, forallb f w = true -> lstrip_by f (w ++ s) = lstrip_by f s.
Proof.
  intros f w s. induction w as [|c w IH]; intro H; [reflexivity|]. cbn [forallb] in H. apply andb_prop in H. destruct H as [A B].
  cbn [app lstrip_by]. rewrite A. exact (IH B).
Qed.

Lemma lstrip_all : forall f w, forallb f w = true -> lstrip_by f w = [].
Proof. intros f w H. rewrite <- (app_nil_r w). rewrite (lstrip_ws_app f w [] H). reflexivity. Qed.

Lemma rstrip_ws_app : forall f s w, forallb f w = true -> rstrip_by f (s ++ w) = rstrip_by f s.
Proof. intros f s w H. unfold rstrip_by. rewrite rev_app_distr. rewrite lstrip_ws_app by (apply forallb_rev; exact H). reflexivity. Qed.

Lemma strip_by_ws_l : forall f w s, forallb f w = true -> strip_by f (w ++ s) = strip_by f s.
Proof. intros f w s H. unfold strip_by. rewrite (lstrip_ws_app f w s H). reflexivity. Qed.

Lemma strip_by_ws_r : forall f s w, forallb f w = true -> strip_by f (s ++ w) = strip_by f s.
Proof.
  intros f s w H. unfold strip_by. induction s as [|c s IH].
  - cbn [app]. rewrite (lstrip_all f w H). reflexivity.
  - cbn [app lstrip_by]. destruct (f c); [exact IH|].
    change (c :: s ++ w) with ((c :: s) ++ w). apply rstrip_ws_app. exact H.
Qed.

Lemma strip_id : forall s, forallb (fun c => negb (is_ws c)) s = true -> strip s = s.
Proof.
  intros s H. unfold strip, strip_by, rstrip_by.
  assert (L : forall t, forallb (fun c => negb (is_ws c)) t = true -> lstrip_by is_ws t = t).
  { intros t Ht. apply lstrip_keep. destruct t as [|c t]; [exact I|]. cbn [forallb] in Ht. apply andb_prop in Ht. destruct Ht as [A _].
    destruct (is_ws c); [discriminate A | reflexivity]. }
  rewrite (L s H). rewrite (L (rev s) (forallb_rev _ s H)). apply rev_involutive.
Qed.

Lemma lstrip_forallb : forall (P : ch -> bool) f s, forallb P s = true -> forallb P (lstrip_by f s) = true.
Proof.
  intros P f s. induction s as [|c s IH]; intro H; [reflexivity|]. cbn [lstrip_by]. destruct (f c); [|exact H].
  cbn [forallb] in H. apply andb_prop in H. destruct H as [_ B]. exact (IH B).
Qed.

Lemma strip_forallb : forall (P : ch -> bool) s, forallb P s = true -> forallb P (strip s) = true.
Proof.
  intros P s H. unfold strip, strip_by, rstrip_by. apply forallb_rev. apply lstrip_forallb. apply forallb_rev. apply lstrip_forallb. exact H.
Qed.

Lemma has_forallb : forall c s, has c s = false <-> forallb (fun d => negb (N.eqb c d)) s = true.
Proof.
  intros c s. unfold has. induction s as [|d s IH]; [split; reflexivity|]. cbn [existsb forallb].
  destruct (N.eqb c d); cbn [orb negb andb]; [split; discriminate | exact IH].
Qed.

(* ------------------------------------------------------------------ underscores *)
Lemma strip_us_none : forall s b, has 95 s = false -> strip_us b s = Some s.
Proof.
  induction s as [|c s IH]; intros b H; [reflexivity|]. unfold has in H. cbn [existsb] in H. apply orb_false_elim in H. destruct H as [A B].
  cbn [strip_us]. rewrite N.eqb_sym in A. rewrite A. rewrite (IH (nl_digit c) B). reflexivity.
Qed.

(* ------------------------------------------------------------------ digits *)
Lemma span_digits_app : forall a r, all_digits a = true -> match r with [] => True | c :: _ => nl_digit c = false end ->
  span_digits (a ++ r) = (a, r).
Proof.
  induction a as [|c a IH]; intros r H R.
  - cbn [app]. destruct r as [|c r]; [reflexivity|]. cbn [span_digits]. rewrite R. reflexivity.
  - cbn [all_digits forallb] in H. apply andb_prop in H. destruct H as [A B]. cbn [app span_digits]. rewrite A. rewrite (IH r B R). reflexivity.
Qed.

Lemma span_digits_spec : forall s a r, span_digits s = (a, r) ->
  s = a ++ r /\ all_digits a = true /\ match r with [] => True | c :: _ => nl_digit c = false end.
Proof.
  induction s as [|c s IH]; intros a r H.
  - cbn [span_digits] in H. injection H as <- <-. repeat split.
  - cbn [span_digits] in H. destruct (nl_digit c) eqn:D.
    + destruct (span_digits s) as [a' r'] eqn:E. injection H as <- <-. destruct (IH a' r' eq_refl) as [S1 [S2 S3]].
      split; [cbn [app]; rewrite <- S1; reflexivity|]. split; [cbn [all_digits forallb]; rewrite D; exact S2 | exact S3].
    + injection H as <- <-. split; [reflexivity|]. split; [reflexivity | exact D].
Qed.

Lemma digits_val_acc_app : forall x y a, digits_val_acc a (x ++ y) = digits_val_acc (digits_val_acc a x) y.
Proof. induction x as [|c x IH]; intros y a; [reflexivity|]. cbn [app digits_val_acc]. apply IH. Qed.

Lemma digits_val_acc_shift : forall y a, digits_val_acc a y = (a * 10 ^ Z.of_nat (length y) + digits_val y)%Z.
Proof.
  induction y as [|c y IH]; intro a.
  - cbn [digits_val_acc length]. unfold digits_val. cbn [digits_val_acc]. change (Z.of_nat 0) with 0%Z. rewrite Z.pow_0_r. lia.
  - unfold digits_val. cbn [digits_val_acc length]. rewrite (IH (a * 10 + dig_val c)%Z), (IH (0 * 10 + dig_val c)%Z).
    rewrite Nat2Z.inj_succ, Z.pow_succ_r by lia. generalize (dig_val c), (10 ^ Z.of_nat (length y))%Z, (digits_val y). intros d P V. lia.
Qed.

Lemma digits_val_app : forall x y, digits_val (x ++ y) = (digits_val x * 10 ^ Z.of_nat (length y) + digits_val y)%Z.
Proof. intros x y. unfold digits_val at 1. rewrite digits_val_acc_app. fold (digits_val x). apply digits_val_acc_shift. Qed.

(* the old scanner on digit strings *)
Lemma parse_digits_val : forall d acc, all_digits d = true -> parse_digits d acc = Some (digits_val_acc acc d).
Proof.
  induction d as [|c d IH]; intros acc H; [reflexivity|]. cbn [all_digits forallb] in H. apply andb_prop in H. destruct H as [A B].
  cbn [parse_digits digits_val_acc]. unfold digit_of. unfold nl_digit in A. rewrite A. exact (IH _ B).
Qed.

Lemma split_dot_digits : forall a r, all_digits a = true ->
  split_dot (a ++ r) = (a ++ fst (split_dot r), snd (split_dot r)).
Proof.
  induction a as [|c a IH]; intros r H.
  - cbn [app]. destruct (split_dot r); reflexivity.
  - cbn [all_digits forallb] in H. apply andb_prop in H. destruct H as [A B]. cbn [app split_dot].
    assert (N46 : N.eqb c 46 = false) by (apply nl_digit_range in A; apply eqb_false_of; lia).
    rewrite N46. rewrite (IH r B). reflexivity.
Qed.

Lemma digits_no_sign : forall c t, nl_digit c = true -> split_sign (c :: t) = (false, c :: t).
Proof.
  intros c t H. apply nl_digit_range in H. unfold split_sign. rewrite !eqb_false_of by lia. reflexivity.
Qed.

(* ------------------------------------------------------------------ strings over digits, signs and the point *)
Lemma split_sign_forallb : forall (P : ch -> bool) s, forallb P s = true -> forallb P (snd (split_sign s)) = true.
Proof.
  intros P [|c t] H; [reflexivity|]. unfold split_sign. cbn [forallb] in H. apply andb_prop in H. destruct H as [A B].
  destruct (N.eqb c 45); [exact B|]. destruct (N.eqb c 43); [exact B|]. cbn [snd forallb]. rewrite A, B. reflexivity.
Qed.

Lemma core_lower : forall c, core_char c = true -> nl_lower c = c.
Proof.
  intros c H. apply core_char_cases in H. unfold nl_lower.
  assert (E : N.leb 65 c = false) by (apply N.leb_gt; lia). rewrite E. reflexivity.
Qed.

Lemma core_word_ne : forall d w0 w, forallb core_char d = true -> 65 <= w0 ->
  str_eqb (map nl_lower d) (w0 :: w) = false /\ str_eqb d (w0 :: w) = false.
Proof.
  intros [|c t] w0 w H L; [split; reflexivity|]. cbn [forallb] in H. apply andb_prop in H. destruct H as [A _].
  cbn [map str_eqb]. rewrite (core_lower c A). apply core_char_cases in A.
  assert (E : N.eqb c w0 = false) by (apply eqb_false_of; lia). rewrite E. split; reflexivity.
Qed.

Section CoreStrings.
  Variable s : str.
  Hypothesis Hs : forallb core_char s = true.

  Lemma core_all_ascii : all_ascii s = true.
  Proof. exact (forallb_imp core_char is_ascii s core_char_ascii Hs). Qed.

  Lemma core_no_us : has 95 s = false.
  Proof.
    apply has_forallb. apply (forallb_imp core_char _ s); [|exact Hs]. intros c H. apply core_char_cases in H.
    assert (E : N.eqb 95 c = false) by (apply eqb_false_of; lia). rewrite E. reflexivity.
  Qed.

  Lemma core_strip : strip s = s.
  Proof. apply strip_id. apply (forallb_imp core_char _ s); [|exact Hs]. intros c H. rewrite (core_char_not_ws c H). reflexivity. Qed.

  Lemma core_radix : radix_prefix s = None.
  Proof.
    destruct s as [|z [|c r]] eqn:E; [reflexivity | reflexivity |]. cbn [radix_prefix].
    assert (C : core_char c = true).
    { clear E. cbn [forallb] in Hs. apply andb_prop in Hs. destruct Hs as [_ B]. apply andb_prop in B. destruct B as [B _]. exact B. }
    apply core_char_cases in C.
    rewrite (eqb_false_of c 120), (eqb_false_of c 88), (eqb_false_of c 111), (eqb_false_of c 79), (eqb_false_of c 98), (eqb_false_of c 66) by lia.
    cbn [orb]. destruct (N.eqb z 48); reflexivity.
  Qed.

  Lemma core_py_special : py_special s = false.
  Proof.
    unfold py_special. pose proof (split_sign_forallb core_char s Hs) as D.
    unfold W_inf, W_infinity, W_nan.
    pose proof (fun w0 w L => proj1 (core_word_ne _ w0 w D L)) as K. rewrite !K by lia. reflexivity.
  Qed.

  Lemma core_js_special : js_special s = false.
  Proof. unfold js_special, W_Infinity. exact (proj2 (core_word_ne _ 73 _ (split_sign_forallb core_char s Hs) ltac:(lia))). Qed.

  Lemma core_py_float : py_float_lit s = decimal_lit s.
  Proof.
    unfold py_float_lit. rewrite core_all_ascii, core_strip. unfold remove_underscores. rewrite (strip_us_none s false core_no_us).
    rewrite core_py_special. reflexivity.
  Qed.

  Lemma core_js_number : js_number_lit s = decimal_lit s.
  Proof.
    unfold js_number_lit. rewrite core_all_ascii, core_strip, core_js_special, core_radix.
    destruct s; reflexivity.
  Qed.

  Lemma core_py_int : py_int_lit s = int_body s.
  Proof.
    unfold py_int_lit. rewrite core_all_ascii, core_strip. unfold remove_underscores. rewrite (strip_us_none s false core_no_us). reflexivity.
  Qed.
End CoreStrings.

(* ------------------------------------------------------------------ the value *)
Lemma mk_q_0 : forall m, mk_q m 0 = inject_Z m.
Proof. intro m. unfold mk_q. change (Z.leb 0 0) with true. cbn iota. change (10 ^ 0)%Z with 1%Z. rewrite Z.mul_1_r. reflexivity. Qed.

Lemma pow10_Z : forall n, (0 < n)%nat -> Zpos (pow10 n) = (10 ^ Z.of_nat n)%Z.
Proof.
  intros n H. unfold pow10. rewrite Pos2Z.inj_pow. f_equal.
  rewrite <- (positive_nat_Z (Pos.of_nat n)). rewrite Nat2Pos.id by lia. reflexivity.
Qed.

Lemma mk_q_neg : forall m n, (0 < n)%nat -> mk_q m (0 - Z.of_nat n) = Qred (Qmake m (pow10 n)).
Proof.
  intros m n H. unfold mk_q. assert (E : Z.leb 0 (0 - Z.of_nat n) = false) by (apply Z.leb_gt; lia). rewrite E.
  replace (- (0 - Z.of_nat n))%Z with (Z.of_nat n) by lia. rewrite <- (pow10_Z n H). reflexivity.
Qed.

(* ------------------------------------------------------------------ split_sign *)
Lemma split_sign_shape : forall s neg d, split_sign s = (neg, d) ->
  s = d \/ (exists c, s = c :: d /\ (c = 43 \/ c = 45)).
Proof.
  intros [|c t] neg d H.
  - cbn in H. injection H as <- <-. left. reflexivity.
  - unfold split_sign in H. destruct (N.eqb_spec c 45) as [E|E].
    + injection H as <- <-. right. exists c. split; [reflexivity | right; exact E].
    + destruct (N.eqb_spec c 43) as [F|F]; injection H as <- <-; [right; exists c; split; [reflexivity | left; exact F] | left; reflexivity].
Qed.

Lemma split_sign_core : forall s neg d, split_sign s = (neg, d) -> forallb core_char d = true -> forallb core_char s = true.
Proof.
  intros s neg d H D. destruct (split_sign_shape s neg d H) as [-> | [c [-> C]]]; [exact D|].
  cbn [forallb]. rewrite D. destruct C as [-> | ->]; reflexivity.
Qed.

Lemma split_sign_has : forall s neg d x, split_sign s = (neg, d) -> has x d = true -> has x s = true.
Proof.
  intros s neg d x H D. destruct (split_sign_shape s neg d H) as [-> | [c [-> _]]]; [exact D|].
  unfold has in *. cbn [existsb]. rewrite D. apply orb_true_r.
Qed.

Lemma split_sign_length : forall s neg d, split_sign s = (neg, d) -> (length d <= length s)%nat.
Proof. intros s neg d H. destruct (split_sign_shape s neg d H) as [-> | [c [-> _]]]; cbn [length]; lia. Qed.

Lemma digits_core : forall a, all_digits a = true -> forallb core_char a = true.
Proof. intros a H. apply (forallb_imp nl_digit core_char a); [|exact H]. intros c D. unfold core_char. rewrite D. reflexivity. Qed.

(* ------------------------------------------------------------------ decimal_lit and the old parsers on the two shapes of the core *)
Lemma decimal_lit_int : forall s neg ip, split_sign s = (neg, ip) -> all_digits ip = true -> ip <> [] ->
  decimal_lit s = NLOk (inject_Z (signed neg (digits_val ip))).
Proof.
  intros s neg ip SS D NE. unfold decimal_lit. rewrite SS.
  pose proof (span_digits_app ip [] D I) as SP. rewrite app_nil_r in SP. rewrite SP.
  destruct ip as [|c t]; [contradiction|]. cbn [nl_nonempty orb parse_exp]. change (Z.ltb EXP_LIMIT (Z.abs 0)) with false. cbn iota.
  rewrite app_nil_r. cbn [length]. change (0 - Z.of_nat 0)%Z with 0%Z. rewrite mk_q_0. reflexivity.
Qed.

Lemma decimal_lit_frac : forall (s : str) neg (ip fp : str), split_sign s = (neg, ip ++ 46 :: fp) -> all_digits ip = true -> all_digits fp = true ->
  nl_nonempty ip || nl_nonempty fp = true ->
  decimal_lit s = NLOk (mk_q (signed neg (digits_val (ip ++ fp))) (0 - Z.of_nat (length fp))).
Proof.
  intros s neg ip fp SS D F NE. unfold decimal_lit. rewrite SS. cbv beta iota.
  rewrite (span_digits_app ip (46 :: fp) D eq_refl). change (N.eqb 46 46) with true. cbn iota.
  pose proof (span_digits_app fp [] F I) as SP. rewrite app_nil_r in SP. rewrite SP. rewrite NE.
  cbn [parse_exp]. change (Z.ltb EXP_LIMIT (Z.abs 0)) with false. cbn iota. reflexivity.
Qed.

Lemma parse_float_int : forall s neg ip, split_sign s = (neg, ip) -> all_digits ip = true -> ip <> [] ->
  Value.parse_float s = Some (inject_Z (signed neg (digits_val ip))).
Proof.
  intros s neg ip SS D NE. unfold Value.parse_float. rewrite SS.
  pose proof (split_dot_digits ip [] D) as SD. cbn [split_dot fst snd] in SD. rewrite !app_nil_r in SD. rewrite SD.
  destruct ip as [|c t]; [contradiction|]. rewrite (parse_digits_val (c :: t) 0 D). reflexivity.
Qed.

Lemma parse_int_int : forall s neg ip, split_sign s = (neg, ip) -> all_digits ip = true -> ip <> [] ->
  Value.parse_int s = Some (signed neg (digits_val ip)).
Proof.
  intros s neg ip SS D NE. unfold Value.parse_int. rewrite SS.
  destruct ip as [|c t]; [contradiction|]. rewrite (parse_digits_val (c :: t) 0 D). reflexivity.
Qed.

Lemma parse_float_frac : forall (s : str) neg (ip fp : str), split_sign s = (neg, ip ++ 46 :: fp) -> all_digits ip = true -> all_digits fp = true ->
  ip <> [] -> fp <> [] ->
  Value.parse_float s = Some (mk_q (signed neg (digits_val (ip ++ fp))) (0 - Z.of_nat (length fp))).
Proof.
  intros s neg ip fp SS D F NI NF. unfold Value.parse_float. rewrite SS.
  pose proof (split_dot_digits ip (46 :: fp) D) as SD. cbn [split_dot] in SD. change (N.eqb 46 46) with true in SD. cbn [fst snd] in SD.
  rewrite app_nil_r in SD. rewrite SD.
  destruct ip as [|c t]; [contradiction|]. destruct fp as [|c' t']; [contradiction|].
  rewrite (parse_digits_val (c :: t) 0 D), (parse_digits_val (c' :: t') 0 F).
  fold (digits_val (c :: t)). fold (digits_val (c' :: t')).
  assert (L : (0 < length (c' :: t'))%nat) by (cbn [length]; lia).
  rewrite (mk_q_neg _ _ L). rewrite digits_val_app. rewrite (pow10_Z _ L).
  destruct neg; reflexivity.
Qed.

(* ------------------------------------------------------------------ (a) the old model is the restriction of the new one *)
Theorem numlit_core_agree : forall s, numeric_core s = true ->
  exists q, Value.parse_float s = Some q /\ py_float_lit s = NLOk q /\ js_number_lit s = NLOk q /\
    (has_dot s = false ->
       exists z, Value.parse_int s = Some z /\ q = inject_Z z /\ ((length s <= MAX_STR_DIGITS)%nat -> py_int_lit s = NLOk z)).
Proof.
  intros s H. unfold numeric_core in H. destruct (split_sign s) as [neg d] eqn:SS. cbn [snd] in H.
  destruct (span_digits d) as [ip r1] eqn:SD. destruct (span_digits_spec d ip r1 SD) as [E [D _]].
  apply andb_prop in H. destruct H as [NI R].
  assert (NE : ip <> []) by (intro X; subst ip; discriminate NI).
  destruct r1 as [|c r].
  - rewrite app_nil_r in E. subst d.
    assert (C : forallb core_char s = true) by (apply (split_sign_core s neg ip SS); apply digits_core; exact D).
    exists (inject_Z (signed neg (digits_val ip))).
    split; [exact (parse_float_int s neg ip SS D NE)|].
    split; [rewrite (core_py_float s C); exact (decimal_lit_int s neg ip SS D NE)|].
    split; [rewrite (core_js_number s C); exact (decimal_lit_int s neg ip SS D NE)|].
    intros _. exists (signed neg (digits_val ip)).
    split; [exact (parse_int_int s neg ip SS D NE)|]. split; [reflexivity|].
    intro LEN. rewrite (core_py_int s C). unfold int_body. rewrite SS, D.
    destruct ip as [|c0 t0]; [contradiction|]. cbn [nl_nonempty andb].
    pose proof (split_sign_length s neg _ SS) as LL.
    assert (LT : Nat.ltb MAX_STR_DIGITS (length (c0 :: t0)) = false) by (apply Nat.ltb_ge; lia). rewrite LT. reflexivity.
  - apply andb_prop in R. destruct R as [R F]. apply andb_prop in R. destruct R as [P NR]. apply N.eqb_eq in P. subst c.
    assert (NF : r <> []) by (intro X; subst r; discriminate NR). subst d.
    assert (C : forallb core_char s = true).
    { apply (split_sign_core s neg _ SS). rewrite forallb_app. rewrite (digits_core ip D). cbn [forallb andb]. rewrite (digits_core r F). reflexivity. }
    assert (NN : nl_nonempty ip || nl_nonempty r = true) by (rewrite NI; reflexivity).
    exists (mk_q (signed neg (digits_val (ip ++ r))) (0 - Z.of_nat (length r))).
    split; [exact (parse_float_frac s neg ip r SS D F NE NF)|].
    split; [rewrite (core_py_float s C); exact (decimal_lit_frac s neg ip r SS D F NN)|].
    split; [rewrite (core_js_number s C); exact (decimal_lit_frac s neg ip r SS D F NN)|].
    intro ND. exfalso. unfold has_dot in ND.
    assert (T : has 46 s = true).
    { apply (split_sign_has s neg _ 46 SS). unfold has. rewrite existsb_app. cbn [existsb]. change (N.eqb 46 46) with true. rewrite orb_true_r. reflexivity. }
    rewrite T in ND. discriminate ND.
Qed.

(* ------------------------------------------------------------------ (b) where float(s) and Number(s) are one function *)
Theorem py_js_agree : forall s, common_notation s = true -> py_float_lit s = js_number_lit s.
Proof.
  intros s H. unfold common_notation in H.
  apply andb_prop in H. destruct H as [H R]. apply andb_prop in H. destruct H as [H JS]. apply andb_prop in H. destruct H as [H PY].
  apply andb_prop in H. destruct H as [A U]. apply negb_true_iff in U, PY, JS.
  assert (U' : has 95 (strip s) = false) by (apply has_forallb; apply strip_forallb; apply has_forallb; exact U).
  unfold py_float_lit, js_number_lit. rewrite A. unfold remove_underscores. rewrite (strip_us_none _ false U'). rewrite PY, JS.
  destruct (radix_prefix (strip s)); [discriminate R|].
  destruct (strip s); reflexivity.
Qed.

(* 1_0 : a number for Python only;  0x10 : a number for JavaScript only *)
Theorem py_only_refuted :
  py_int_lit [49; 95; 48] = NLOk 10%Z /\ py_float_lit [49; 95; 48] = NLOk (10 # 1) /\ js_number_lit [49; 95; 48] = NLError
  /\ common_notation [49; 95; 48] = false.
Proof. vm_compute. split; [reflexivity|]. split; [reflexivity|]. split; reflexivity. Qed.

Theorem js_only_refuted :
  js_number_lit [48; 120; 49; 48] = NLOk (16 # 1) /\ py_float_lit [48; 120; 49; 48] = NLError /\ py_int_lit [48; 120; 49; 48] = NLError
  /\ common_notation [48; 120; 49; 48] = false.
Proof. vm_compute. split; [reflexivity|]. split; [reflexivity|]. split; reflexivity. Qed.

(* ------------------------------------------------------------------ (c) integers written by one query are read back by the next *)
Lemma N_of_digits_acc_Z : forall d a, Z.of_N (N_of_digits_acc a d) = digits_val_acc (Z.of_N a) d.
Proof.
  induction d as [|c d IH]; intro a; [reflexivity|]. cbn [N_of_digits_acc digits_val_acc]. rewrite IH.
  rewrite N2Z.inj_add, N2Z.inj_mul. reflexivity.
Qed.

Lemma Forall_all_digits : forall l, Forall (fun c => 48 <= c <= 57) l -> all_digits l = true.
Proof. intros l H. apply forallb_forall. intros x I. apply nl_digit_range. exact (proj1 (Forall_forall _ l) H x I). Qed.

Lemma dec_fuel_length : forall f n acc k, n < 10 ^ N.of_nat k -> (1 <= k)%nat -> (length (dec_fuel f n acc) <= length acc + k)%nat.
Proof.
  induction f as [|f IH]; intros n acc k H K; [cbn [dec_fuel]; lia|]. cbn [dec_fuel].
  destruct (N.ltb_spec n 10) as [L|L]; [cbn [length]; lia|].
  destruct k as [|k]; [lia|]. destruct k as [|k]; [exfalso; change (10 ^ N.of_nat 1) with 10 in H; lia|].
  rewrite Nat2N.inj_succ, N.pow_succ_r' in H.
  assert (Q : n / 10 < 10 ^ N.of_nat (S k)) by (apply N.div_lt_upper_bound; lia).
  pose proof (IH (n / 10) ((n mod 10 + 48) :: acc) (S k) Q ltac:(lia)) as B. cbn [length] in B. lia.
Qed.

Lemma dec_of_N_length : forall n k, n < 10 ^ N.of_nat k -> (1 <= k)%nat -> (length (dec_of_N n) <= k)%nat.
Proof. intros n k H K. unfold dec_of_N. pose proof (dec_fuel_length (S (N.size_nat n)) n [] k H K) as B. cbn [length] in B. lia. Qed.

Lemma dec_of_N_facts : forall p, let D := dec_of_N (N.pos p) in
  all_digits D = true /\ D <> [] /\ digits_val D = Z.pos p /\ split_sign D = (false, D).
Proof.
  intros p D. split; [apply Forall_all_digits; apply dec_of_N_digits|].
  destruct (dec_of_N_head (N.pos p)) as [c [t [E R]]]. fold D in E.
  split; [rewrite E; discriminate|].
  split.
  - unfold digits_val. change 0%Z with (Z.of_N 0). rewrite <- N_of_digits_acc_Z. fold (N_of_digits D). unfold D. rewrite dec_of_N_val. reflexivity.
  - rewrite E. apply digits_no_sign. apply nl_digit_range. exact R.
Qed.

Theorem int_roundtrip : forall z,
  js_number_lit (int_text z) = NLOk (inject_Z z) /\ py_float_lit (int_text z) = NLOk (inject_Z z)
  /\ ((Z.abs z < 10 ^ Z.of_nat MAX_STR_DIGITS)%Z -> py_int_lit (int_text z) = NLOk z).
Proof.
  assert (K1 : (1 <= MAX_STR_DIGITS)%nat) by (unfold MAX_STR_DIGITS; apply le_n_S, Nat.le_0_l).
  assert (BND : forall p, (Z.pos p < 10 ^ Z.of_nat MAX_STR_DIGITS)%Z -> Nat.ltb MAX_STR_DIGITS (length (dec_of_N (N.pos p))) = false).
  { intros p B. apply Nat.ltb_ge. apply dec_of_N_length; [|exact K1].
    apply N2Z.inj_lt. rewrite N2Z.inj_pow. rewrite nat_N_Z. exact B. }
  intros [|p|p]; unfold int_text.
  - split; [reflexivity|]. split; [reflexivity|]. intros _. vm_compute. reflexivity.
  - destruct (dec_of_N_facts p) as [D [NE [V SS]]]. pose proof (BND p) as LT. remember (dec_of_N (N.pos p)) as T eqn:ET.
    assert (C : forallb core_char T = true) by (apply digits_core; exact D).
    pose proof (decimal_lit_int T false T SS D NE) as DL. rewrite V in DL. cbn [signed] in DL.
    split; [rewrite (core_js_number T C); exact DL|]. split; [rewrite (core_py_float T C); exact DL|].
    intro B. cbn [Z.abs] in B. rewrite (core_py_int T C). unfold int_body. rewrite SS, D, (LT B), V.
    destruct T; [contradiction | reflexivity].
  - destruct (dec_of_N_facts p) as [D [NE [V _]]]. pose proof (BND p) as LT. remember (dec_of_N (N.pos p)) as T eqn:ET.
    assert (SS : split_sign (45 :: T) = (true, T)) by reflexivity.
    assert (C : forallb core_char (45 :: T) = true) by (cbn [forallb]; rewrite (digits_core T D); reflexivity).
    pose proof (decimal_lit_int (45 :: T) true T SS D NE) as DL. rewrite V in DL. cbn [signed Z.opp] in DL.
    split; [rewrite (core_js_number _ C); exact DL|]. split; [rewrite (core_py_float _ C); exact DL|].
    intro B. cbn [Z.abs] in B. rewrite (core_py_int _ C). unfold int_body. rewrite SS, D, (LT B), V.
    destruct T; [contradiction | reflexivity].
Qed.

(* ------------------------------------------------------------------ (d) white space and signs *)
Lemma ws_ascii : forall w, forallb is_ws w = true -> all_ascii w = true.
Proof.
  intros w H. apply (forallb_imp is_ws is_ascii w); [|exact H]. intros c W. unfold is_ws in W. unfold is_ascii. apply N.ltb_lt. nbool; lia.
Qed.

Theorem nl_ws_invariant : forall w1 w2 s, forallb is_ws w1 = true -> forallb is_ws w2 = true ->
  py_int_lit (w1 ++ s ++ w2) = py_int_lit s /\ py_float_lit (w1 ++ s ++ w2) = py_float_lit s
  /\ js_number_lit (w1 ++ s ++ w2) = js_number_lit s.
Proof.
  intros w1 w2 s H1 H2.
  assert (A : all_ascii (w1 ++ s ++ w2) = all_ascii s).
  { unfold all_ascii. rewrite !forallb_app. fold (all_ascii w1). fold (all_ascii w2). rewrite (ws_ascii w1 H1), (ws_ascii w2 H2).
    rewrite andb_true_r. reflexivity. }
  assert (S : strip (w1 ++ s ++ w2) = strip s).
  { unfold strip. rewrite (strip_by_ws_l is_ws w1 _ H1). apply strip_by_ws_r. exact H2. }
  unfold py_int_lit, py_float_lit, js_number_lit. rewrite A, S. repeat split.
Qed.

Definition nl_map {T U} (f : T -> U) (r : nl_result T) : nl_result U :=
  match r with NLOk v => NLOk (f v) | NLError => NLError | NLUnmodelled => NLUnmodelled end.

Lemma mk_q_opp : forall m e, mk_q (- m) e = Qopp (mk_q m e).
Proof.
  intros m e. unfold mk_q. destruct (Z.leb 0 e).
  - rewrite Z.mul_opp_l. reflexivity.
  - change (Qmake (- m) (Z.to_pos (10 ^ (- e)))) with (Qopp (Qmake m (Z.to_pos (10 ^ (- e))))). apply Qred_opp.
Qed.

(* an explicit plus sign changes nothing; a minus sign negates (u: a body without a sign) *)
Theorem decimal_lit_plus : forall u, split_sign u = (false, u) -> decimal_lit (43 :: u) = decimal_lit u.
Proof. intros u H. unfold decimal_lit. rewrite H. reflexivity. Qed.

Theorem decimal_lit_minus : forall u, split_sign u = (false, u) -> decimal_lit (45 :: u) = nl_map Qopp (decimal_lit u).
Proof.
  intros u H. unfold decimal_lit. rewrite H. change (split_sign (45 :: u)) with (true, u). cbv beta iota.
  destruct (span_digits u) as [ip r1].
  destruct (match r1 with [] => ([], r1) | c :: r => if N.eqb c 46 then span_digits r else ([], r1) end) as [fp r2].
  destruct (nl_nonempty ip || nl_nonempty fp); [|reflexivity].
  destruct (parse_exp r2) as [e|]; [|reflexivity].
  destruct (Z.ltb EXP_LIMIT (Z.abs e)); [reflexivity|]. cbn [nl_map signed]. rewrite mk_q_opp. reflexivity.
Qed.
