(* Frontends.v — the command line's outcome function (rbql_main.run_with_python_csv / csv_main) and the
   resource discipline of rbql_csv.query_csv (try / finally). *)
From RBQL Require Import Base.

(* ---- CLI ---- *)
Inductive eclass4 := EParsing | ERuntime | EIO | EOtherErr.     (* exception_to_error_info: query parsing / query execution / IO handling / unexpected or syntax error *)
(* a failing query may already have emitted a prefix of its table (the engine streams) *)
Inductive qresult := QOk (table : list str) (warnings : list str) | QFail (c : eclass4) (msg : str) (emitted : list str).

Record cli_out := { exit_code : nat; stdout_lines : list str; stderr_lines : list str }.

Definition error_label (c : eclass4) : str :=
  match c with
  | EParsing => [113; 117; 101; 114; 121; 32; 112; 97; 114; 115; 105; 110; 103]              (* query parsing *)
  | ERuntime => [113; 117; 101; 114; 121; 32; 101; 120; 101; 99; 117; 116; 105; 111; 110]    (* query execution *)
  | EIO => [73; 79; 32; 104; 97; 110; 100; 108; 105; 110; 103]                               (* IO handling *)
  | EOtherErr => [117; 110; 101; 120; 112; 101; 99; 116; 101; 100]                           (* unexpected *)
  end%N.

Definition ERROR_PFX : str := [69; 114; 114; 111; 114; 32; 91]%N.       (* "Error [" *)
Definition WARN_PFX : str := [87; 97; 114; 110; 105; 110; 103; 58; 32]%N. (* "Warning: " *)

(* non-interactive mode, output to stdout *)
Definition cli_outcome (r : qresult) : cli_out :=
  match r with
  | QOk table warns => {| exit_code := 0; stdout_lines := table; stderr_lines := map (fun w => WARN_PFX ++ w) warns |}
  | QFail c msg emitted => {| exit_code := 1; stdout_lines := emitted;
                      stderr_lines := [ERROR_PFX ++ error_label c ++ [93; 58; 32]%N ++ msg] |}
  end.

(* ---- query_csv: which streams are open when, and what the finally block closes ---- *)
Inductive res_id := ROut | RIn | RJoin.
Inductive rev := Open (r : res_id) | Close (r : res_id).

(* where the body of the try block fails (or not at all) *)
Inductive fail_point :=
| FOpenOut          (* open(output_path) raises *)
| FOpenIn           (* open(input_path) raises *)
| FChecks           (* delimiter / encoding checks, iterator or writer construction (e.g. undecodable header line) *)
| FParse            (* shallow_parse fails before the join table is opened *)
| FJoinOpen         (* find_table_path / open(join file) raises *)
| FJoinInit         (* the join file is open, the join iterator's constructor or the rest of parsing raises *)
| FRun              (* the main loop or writer.finish raises *)
| FNone.

Definition fp_rank (p : fail_point) : nat :=
  match p with FOpenOut => 0 | FOpenIn => 1 | FChecks => 2 | FParse => 3 | FJoinOpen => 4 | FJoinInit => 5 | FRun => 6 | FNone => 7 end.

(* file-to-file mode with a JOIN (the largest resource set); has_join = false skips the join steps *)
Definition query_csv_events (has_join : bool) (p : fail_point) : list rev :=
  let opened_out := Nat.ltb 0 (fp_rank p) in
  let opened_in := Nat.ltb 1 (fp_rank p) in
  let opened_join := has_join && Nat.ltb 4 (fp_rank p) in
  (if opened_out then [Open ROut] else []) ++ (if opened_in then [Open RIn] else []) ++ (if opened_join then [Open RJoin] else [])
  (* finally: close_input_on_finish / close_output_on_finish are only set once the open succeeded;
     join_tables_registry.finish() closes the join stream if it was opened *)
  ++ (if opened_in then [Close RIn] else []) ++ (if opened_out then [Close ROut] else []) ++ (if opened_join then [Close RJoin] else []).

Definition res_eqb (a b : res_id) : bool :=
  match a, b with ROut, ROut | RIn, RIn | RJoin, RJoin => true | _, _ => false end.
Definition opened_of (l : list rev) : list res_id := flat_map (fun e => match e with Open r => [r] | _ => [] end) l.
Definition closed_of (l : list rev) : list res_id := flat_map (fun e => match e with Close r => [r] | _ => [] end) l.
Definition count_res (r : res_id) (l : list res_id) : nat := length (filter (res_eqb r) l).
