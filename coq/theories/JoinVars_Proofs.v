(* JoinVars_Proofs.v — the two sides of an ON condition are interchangeable (C08 "swapped sides in ON", C04_spelling):
   for a pair made of an input-side variable (a field of the input table or NR / aNR / a.NR) and a join-side variable
   (a field of the join table or bNR / b.NR), neither of them known to both tables, both orders resolve to the same key. *)
From RBQL Require Import Base Parser ParserVars ParserVars_Proofs JoinVars.

Definition a_side (im : vmap) (v : str) : bool := in_map v im || is_a_nr v.
Definition b_side (jm : vmap) (v : str) : bool := in_map v jm || is_b_nr v.

Lemma nr_names_disjoint v : is_a_nr v = true -> is_b_nr v = false.
Proof.
  unfold is_a_nr, is_b_nr. intros H.
  destruct (str_eqb v S_NR) eqn:E1; [apply str_eqb_eq in E1; subst v; reflexivity|].
  destruct (str_eqb v S_adotNR) eqn:E2; [apply str_eqb_eq in E2; subst v; reflexivity|].
  destruct (str_eqb v S_aNR) eqn:E3; [apply str_eqb_eq in E3; subst v; reflexivity|]. discriminate.
Qed.

(* hypotheses: x is an input-side variable, y a join-side one; x is unknown to the join table and y to the input table
   (for the record-number names that is automatic as soon as no COLUMN variable is spelled like them) *)
Theorem resolve_pair_swap im jm x y :
  a_side im x = true -> b_side jm y = true ->
  in_map x jm = false -> is_b_nr x = false -> in_map y im = false -> is_a_nr y = false ->
  resolve_pair im jm y x = resolve_pair im jm x y.
Proof.
  intros Hx Hy Hxj Hxb Hyi Hya. unfold resolve_pair.
  rewrite Hxj, Hyi, !andb_false_r. cbn [andb]. rewrite Hya. cbn [orb].
  unfold a_side in Hx. rewrite Hx. reflexivity.
Qed.

Theorem resolve_join_swap im jm pairs swaps :
  length swaps = length pairs ->
  Forall (fun p : str * str => a_side im (fst p) = true /\ b_side jm (snd p) = true /\ in_map (fst p) jm = false /\ is_b_nr (fst p) = false
                   /\ in_map (snd p) im = false /\ is_a_nr (snd p) = false) pairs ->
  resolve_join_variables im jm (map (fun bp : bool * (str * str) => if fst bp then (snd (snd bp), fst (snd bp)) else snd bp) (combine swaps pairs))
  = resolve_join_variables im jm pairs.
Proof.
  revert swaps. induction pairs as [|[x y] t IH]; intros [|b bs] Hl Hf; try discriminate; [reflexivity|].
  cbn [length] in Hl. injection Hl as Hl. inversion Hf as [|? ? Hp Ht]; subst. cbn [fst snd] in Hp.
  destruct Hp as [H1 [H2 [H3 [H4 [H5 H6]]]]].
  cbn [combine map fst snd resolve_join_variables]. destruct b; cbn [fst snd].
  - rewrite (resolve_pair_swap im jm x y H1 H2 H3 H4 H5 H6), (IH bs Hl Ht). reflexivity.
  - rewrite (IH bs Hl Ht). reflexivity.
Qed.
