(* EntryVarSpell.v — entry points of VarSpelling.v (codes 535-537, Parser/Header range).
   535 numbered variables   L[fl; query; prefix]                 -> L[0; L[ L[key; initialize; index; opt lookup(key)] ... ]]  |  L[2]
                                                                     (L[2]: rbql-js flavour and a number >= 2^53 was read: not modelled)
   536 lookup               L[fl; prefix; vmap; L[token...]]     -> L[opt index ...]      vmap = L[ L[key; initialize; index] ... ]
   537 record-number names  L[fl; fmt; jm; L[name...]]           -> L[opt (0 = record number of a | 1 = of b) ...]
                                                                     jm: 0 = no JOIN, 1 = empty join map, 2 = non-empty join map *)
From RBQL Require Import Base Sx Parser ParserVars JoinVars VarSpelling EntryParser.
Local Open Scope N_scope.

Definition ep_numbered (x : sx) : sx :=
  match x with
  | L [f; q; A p] =>
      match lang_of_sx f, str_of_sx q with
      | Some fl, Some query =>
          match numbered_vars_fl fl query p with
          | Some m => L [A 0; sx_of_list (fun e : str * vinfo =>
                                            L [sx_of_str (fst e); sx_of_bool (fst (snd e)); A (snd (snd e));
                                               sx_of_option sx_of_N (lookup fl p m (fst e))]) m]
          | None => L [A 2]
          end
      | _, _ => ERR
      end
  | _ => ERR
  end.

Definition ep_lookup (x : sx) : sx :=
  match x with
  | L [f; A p; m; toks] =>
      match lang_of_sx f, vmap_of_sx m, strs_of_sx toks with
      | Some fl, Some m', Some ts => sx_of_list (fun t => sx_of_option sx_of_N (lookup fl p m' t)) ts
      | _, _, _ => ERR
      end
  | _ => ERR
  end.

Definition ep_nr (x : sx) : sx :=
  match x with
  | L [f; t; A j; names] =>
      match lang_of_sx f, str_of_sx t, strs_of_sx names with
      | Some fl, Some fmt, Some ns =>
          let jm : option vmap := if N.eqb j 0 then None else if N.eqb j 1 then Some [] else Some [([98; 49], (true, 0))] in
          sx_of_list (fun n => sx_of_option (fun v => match v with NRA => A 0 | NRB => A 1 end) (nr_lookup fl fmt jm n)) ns
      | _, _, _ => ERR
      end
  | _ => ERR
  end.

Definition dispatch_varspell (code : N) (x : sx) : option sx :=
  match code with
  | 535 => Some (ep_numbered x)
  | 536 => Some (ep_lookup x)
  | 537 => Some (ep_nr x)
  | _ => None
  end.
