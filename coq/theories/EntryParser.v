(* EntryParser.v — entry points of the Parser area (codes 500-549; 550-599 are reserved for Header).
   500 cleanup_query            L[fl; text]                      -> text
   501 separate_string_literals L[fl; text]                      -> L[format; L[lit...]]
   502 combine_string_literals  L[text; L[lit...]]               -> text
   503 parse pipeline           L[fl; text]                      -> L[clean; format; L lits; format2; actions_res; details]
   504 separate_actions         L[fl; with_from; text]           -> L[actions_res; details]
   505 update assignments       L[fl; text]                      -> res L[L[var; rhs]...]
   506 parse_join_expression    L[fl; text]                      -> res L[table_id; L[L[v1; v2]...]]
   507 translate_select_expr.   L[fl; text]                      -> res text
   508 replace_star_count       L[fl; text]                      -> text
   509 except variable list     L[fl; text]                      -> L[text...]
   510 remove_redundant_input_table_name  L[fl; text]            -> text
   520 python_string_escape_column_name   L[qc; name]            -> text
   521 py_literal_value         text                             -> option text
   522 get_variables_map        L[src; query; prefix; opt names; opt first_len] -> vres L[L[key; initialize; index]...]
   523 header logic             L[kind; flag; opt modifier; L records; opt names] -> L[opt header; L records; has_header; emit_first]
   524 variables_init_code      L[fmt; vmap; opt vmap; L lits]   -> text
   525 character probes         L[fl; k; c]                      -> L[ws c; ci_eq k c; dot_ok c]
   526 eval_bracket_access      L[prefix; vmap; literal]         -> option index
   527 query_probably_has_dictionary_variable  L[query; name]    -> bool
   528 C09 pipeline             L[kind; flag; query; probe; L all_records; opt names]
                                 kind 0 = CSV iterator (header = first record when the effective flag is on; the WITH
                                 modifier is the one the model's own parse of the query finds), 1 = list table with
                                 normalize_column_names, 2 = list table in direct mode, 3 = pandas / sqlite (as 1, no length check)
                                 -> L[opt header; L records; vres (opt L[initialize; index] of the probe variable); opt modifier]
                                 or L[1; parse error] when the query text is rejected by separate_actions
   res X = L[0; X] | L[1; L[tag; stmt?]] ; vres X = L[0; X] | L[1; tag]. *)
From RBQL Require Import Base Sx Parser ParserVars.
Local Open Scope N_scope.

Definition lang_of_sx (x : sx) : option lang :=
  match x with A n => Some (if N.eqb n 0 then LPy else LJs) | _ => None end.
Definition sx_of_strs (l : list str) : sx := sx_of_list sx_of_str l.
Definition strs_of_sx (x : sx) : option (list str) := list_of_sx str_of_sx x.
Definition sx_of_N (n : N) : sx := A n.

Definition perr_sx (e : perr) : sx :=
  match e with
  | E_more_than_one s => L [A 1; sx_of_nat (stmt_id s)]
  | E_update_not_first => L [A 2]
  | E_select_not_first => L [A 3]
  | E_no_select_update => L [A 4]
  | E_both_select_update => L [A 5]
  | E_limit_not_int => L [A 6]
  | E_join_syntax => L [A 7]
  | E_update_first_assignment => L [A 8]
  | E_select_empty => L [A 9]
  end.
Definition sx_of_res {T} (f : T -> sx) (r : res T) : sx :=
  match r with Ok v => L [A 0; f v] | Err e => L [A 1; perr_sx e] end.
Definition sx_of_vres {T} (f : T -> sx) (r : vres T) : sx :=
  match r with
  | VOk v => L [A 0; f v]
  | VErr V_attr_not_found => L [A 1; A 1]
  | VErr V_bad_direct_name => L [A 1; A 2]
  | VErr V_len_mismatch => L [A 1; A 3]
  end.

Definition actions_sx (a : actions) : sx :=
  L [ sx_of_option sx_of_str (a_with a);
      sx_of_option sx_of_str (a_select a);
      sx_of_option sx_of_N (a_top a);
      sx_of_bool (a_distinct a);
      sx_of_bool (a_distinct_count a);
      sx_of_option sx_of_str (a_update a);
      sx_of_option sx_of_str (a_where a);
      sx_of_option (fun p : str * bool => L [sx_of_str (fst p); sx_of_bool (snd p)]) (a_order a);
      sx_of_option sx_of_str (a_group a);
      sx_of_option sx_of_str (a_limit a);
      sx_of_option sx_of_str (a_except a);
      sx_of_option (fun p : stmt * str => L [sx_of_nat (stmt_id (fst p)); sx_of_str (snd p)]) (a_join a);
      sx_of_option sx_of_str (a_from a) ].

Definition pairs_sx (l : list (str * str)) : sx :=
  sx_of_list (fun p : str * str => L [sx_of_str (fst p); sx_of_str (snd p)]) l.
Definition join_sx (r : str * list (str * str)) : sx := L [sx_of_str (fst r); pairs_sx (snd r)].

(* per-clause results for an accepted query: find_top, update split, join parse, select translation,
   except list (each computed only where the clause is present) *)
Definition details_sx (fl : lang) (r : res actions) : sx :=
  match r with
  | Err _ => L []
  | Ok a =>
      L [ sx_of_res (sx_of_option sx_of_Z) (find_top fl a);
          sx_of_option (fun t => sx_of_res pairs_sx (update_assignments fl t)) (a_update a);
          sx_of_option (fun p : stmt * str => sx_of_res join_sx (parse_join_expression fl (snd p))) (a_join a);
          sx_of_option (fun t => sx_of_res sx_of_str (translate_select_expression fl t)) (a_select a);
          sx_of_option (fun t => sx_of_strs (except_vars fl t)) (a_except a) ]
  end.

Definition with2 {T U} (fa : sx -> option T) (fb : sx -> option U) (x : sx) (k : T -> U -> sx) : sx :=
  match x with
  | L [a; b] => match fa a, fb b with Some a', Some b' => k a' b' | _, _ => ERR end
  | _ => ERR
  end.

Definition ep_cleanup (x : sx) : sx := with2 lang_of_sx str_of_sx x (fun fl t => sx_of_str (cleanup_query fl t)).
Definition ep_separate (x : sx) : sx :=
  with2 lang_of_sx str_of_sx x (fun fl t => let (f, ls) := separate_string_literals fl t in L [sx_of_str f; sx_of_strs ls]).
Definition ep_combine (x : sx) : sx :=
  with2 str_of_sx strs_of_sx x (fun t ls => sx_of_str (combine_string_literals t ls)).
Definition ep_parse (x : sx) : sx :=
  with2 lang_of_sx str_of_sx x (fun fl t =>
    let p := parse_query fl t in
    L [sx_of_str (p_clean p); sx_of_str (p_format p); sx_of_strs (p_literals p); sx_of_str (p_format2 p);
       sx_of_res actions_sx (p_actions p); details_sx fl (p_actions p)]).
Definition ep_actions (x : sx) : sx :=
  match x with
  | L [f; wf; t] =>
      match lang_of_sx f, bool_of_sx wf, str_of_sx t with
      | Some fl, Some w, Some t' => let r := separate_actions fl w t' in L [sx_of_res actions_sx r; details_sx fl r]
      | _, _, _ => ERR
      end
  | _ => ERR
  end.
Definition ep_update (x : sx) : sx :=
  with2 lang_of_sx str_of_sx x (fun fl t => sx_of_res pairs_sx (update_assignments fl t)).
Definition ep_join (x : sx) : sx :=
  with2 lang_of_sx str_of_sx x (fun fl t => sx_of_res join_sx (parse_join_expression fl t)).
Definition ep_select (x : sx) : sx :=
  with2 lang_of_sx str_of_sx x (fun fl t => sx_of_res sx_of_str (translate_select_expression fl t)).
Definition ep_star_count (x : sx) : sx :=
  with2 lang_of_sx str_of_sx x (fun fl t => sx_of_str (replace_star_count fl t)).
Definition ep_except (x : sx) : sx :=
  with2 lang_of_sx str_of_sx x (fun fl t => sx_of_strs (except_vars fl t)).
Definition ep_remove_table (x : sx) : sx :=
  with2 lang_of_sx str_of_sx x (fun fl t => sx_of_str (remove_redundant_input_table_name fl t)).

Definition ep_escape (x : sx) : sx :=
  with2 N_of_sx str_of_sx x (fun qc n => sx_of_str (escape_column_name qc n)).
Definition ep_literal (x : sx) : sx :=
  match str_of_sx x with Some t => sx_of_option sx_of_str (py_literal_value t) | None => ERR end.

Definition vmap_sx (m : vmap) : sx :=
  sx_of_list (fun e : str * vinfo => L [sx_of_str (fst e); sx_of_bool (fst (snd e)); A (snd (snd e))]) m.
Definition vmap_of_sx (x : sx) : option vmap :=
  list_of_sx (fun e => match e with
                       | L [k; i; A n] => match str_of_sx k, bool_of_sx i with
                                          | Some k', Some i' => Some (k', (i', n))
                                          | _, _ => None
                                          end
                       | _ => None
                       end) x.
Definition source_of_sx (x : sx) : option source :=
  match x with A n => Some (if N.eqb n 0 then SrcTable true else if N.eqb n 1 then SrcTable false else SrcCsv) | _ => None end.
Definition ep_varmap (x : sx) : sx :=
  match x with
  | L [s; q; p; ns; fl] =>
      match source_of_sx s, str_of_sx q, N_of_sx p, option_of_sx strs_of_sx ns, option_of_sx nat_of_sx fl with
      | Some src, Some query, Some prefix, Some names, Some first_len =>
          sx_of_vres vmap_sx (get_variables_map src query prefix names first_len)
      | _, _, _, _, _ => ERR
      end
  | _ => ERR
  end.
Definition ep_header (x : sx) : sx :=
  match x with
  | L [k; f; w; recs; ns] =>
      match N_of_sx k, bool_of_sx f, option_of_sx str_of_sx w, list_of_sx strs_of_sx recs, option_of_sx strs_of_sx ns with
      | Some kind, Some flag, Some modifier, Some all_records, Some names =>
          if N.eqb kind 0 then
            let st := effective flag modifier in
            L [sx_of_option sx_of_strs (csv_header st all_records); sx_of_list sx_of_strs (csv_records st all_records);
               sx_of_bool (has_header st); sx_of_bool (emit_first st)]
          else
            L [sx_of_option sx_of_strs names; sx_of_list sx_of_strs all_records;
               sx_of_bool (match names with Some _ => true | None => false end); sx_of_bool true]
      | _, _, _, _, _ => ERR
      end
  | _ => ERR
  end.
Definition ep_init_code (x : sx) : sx :=
  match x with
  | L [f; m; jm; ls] =>
      match str_of_sx f, vmap_of_sx m, option_of_sx vmap_of_sx jm, strs_of_sx ls with
      | Some fmt, Some m', Some jm', Some lits => sx_of_str (variables_init_code fmt m' jm' lits)
      | _, _, _, _ => ERR
      end
  | _ => ERR
  end.
Definition ep_probe (x : sx) : sx :=
  match x with
  | L [f; A k; A c] =>
      match lang_of_sx f with
      | Some fl => L [sx_of_bool (ws fl c); sx_of_bool (ci_eq fl k c); sx_of_bool (dot_ok fl c)]
      | None => ERR
      end
  | _ => ERR
  end.
Definition ep_bracket (x : sx) : sx :=
  match x with
  | L [A p; m; l] =>
      match vmap_of_sx m, str_of_sx l with
      | Some m', Some lit => sx_of_option sx_of_N (eval_bracket_access p m' lit)
      | _, _ => ERR
      end
  | _ => ERR
  end.
Definition ep_prefilter (x : sx) : sx :=
  with2 str_of_sx str_of_sx x (fun q n => sx_of_bool (query_probably_has_dictionary_variable q n)).

Definition ep_c09 (x : sx) : sx :=
  match x with
  | L [k; f; q; pv; recs; ns] =>
      match N_of_sx k, bool_of_sx f, str_of_sx q, str_of_sx pv, list_of_sx strs_of_sx recs, option_of_sx strs_of_sx ns with
      | Some kind, Some flag, Some query, Some probe, Some all_records, Some names =>
          let p := parse_query LPy query in
          match p_actions p with
          | Err e => L [A 1; perr_sx e]          (* the query does not parse: the implementation must fail too *)
          | Ok a =>
              let modifier := a_with a in
              let '(hdr, records, src, first_len) :=
                if N.eqb kind 0 then
                  let st := effective flag modifier in
                  (csv_header st all_records, csv_records st all_records, SrcCsv, None)
                else
                  (names, all_records, SrcTable (negb (N.eqb kind 2)),
                   if N.eqb kind 3 then None else option_map (@length str) (hd_error all_records)) in
              let vm := get_variables_map src (p_clean p) 97 hdr first_len in
              L [sx_of_option sx_of_strs hdr; sx_of_list sx_of_strs records;
                 sx_of_vres (fun m => sx_of_option (fun v : vinfo => L [sx_of_bool (fst v); A (snd v)]) (map_get probe m)) vm;
                 sx_of_option sx_of_str modifier]
          end
      | _, _, _, _, _, _ => ERR
      end
  | _ => ERR
  end.

Definition dispatch_parser (code : N) (x : sx) : option sx :=
  match code with
  | 500 => Some (ep_cleanup x)
  | 501 => Some (ep_separate x)
  | 502 => Some (ep_combine x)
  | 503 => Some (ep_parse x)
  | 504 => Some (ep_actions x)
  | 505 => Some (ep_update x)
  | 506 => Some (ep_join x)
  | 507 => Some (ep_select x)
  | 508 => Some (ep_star_count x)
  | 509 => Some (ep_except x)
  | 510 => Some (ep_remove_table x)
  | 520 => Some (ep_escape x)
  | 521 => Some (ep_literal x)
  | 522 => Some (ep_varmap x)
  | 523 => Some (ep_header x)
  | 524 => Some (ep_init_code x)
  | 525 => Some (ep_probe x)
  | 526 => Some (ep_bracket x)
  | 527 => Some (ep_prefilter x)
  | 528 => Some (ep_c09 x)
  | _ => None
  end.
