(* PyStr_Proofs.v — the Python-level primitives of PyStr.v at natural-number positions inside the string:
   what CsvIx_Proofs.v needs to go from the index-style model to the suffix-style model Csv.v. *)
From RBQL Require Import Base Csv PyStr CsvStr_Proofs Csv_Proofs CsvLossy_Proofs.

Lemma py_norm_nat n k : py_norm n (Z.of_nat k) = Z.of_nat k.
Proof. unfold py_norm. destruct (Z.of_nat k <? 0)%Z eqn:E; [apply Z.ltb_lt in E; lia|reflexivity]. Qed.

Lemma zlen_nat {A} (l : list A) : zlen l = Z.of_nat (length l).
Proof. reflexivity. Qed.

Lemma py_find_nat s p k : (k <= length s)%nat ->
  py_find s p (Z.of_nat k) = match find p (skipn k s) with Some i => Z.of_nat (k + i) | None => (-1)%Z end.
Proof.
  intros H. unfold py_find. rewrite py_norm_nat. unfold zlen.
  destruct (Z.of_nat (length s) <? Z.of_nat k)%Z eqn:E; [apply Z.ltb_lt in E; lia|].
  rewrite Nat2Z.id. destruct (find p (skipn k s)); [rewrite Nat2Z.inj_add|]; reflexivity.
Qed.

Lemma py_startswith_nat s p k : (k <= length s)%nat -> py_startswith s p (Z.of_nat k) = starts_with p (skipn k s).
Proof.
  intros H. unfold py_startswith. rewrite py_norm_nat. unfold zlen.
  destruct (Z.of_nat (length s) <? Z.of_nat k)%Z eqn:E; [apply Z.ltb_lt in E; lia|].
  rewrite Nat2Z.id. reflexivity.
Qed.

Lemma py_bound_nat n k : (k <= n)%nat -> py_bound n (Z.of_nat k) = k.
Proof. intros H. unfold py_bound. rewrite py_norm_nat. rewrite Z.min_l by lia. apply Nat2Z.id. Qed.

Lemma py_slice_nat {A} (l : list A) a b : (a <= length l)%nat -> (b <= length l)%nat ->
  py_slice l (Some (Z.of_nat a)) (Some (Z.of_nat b)) = firstn (b - a) (skipn a l).
Proof. intros Ha Hb. unfold py_slice. rewrite !py_bound_nat by assumption. reflexivity. Qed.

Lemma py_contains_qt f : py_contains f [QT] = has QT f.
Proof. apply contains_single. Qed.

Lemma py_contains_ch f c : py_contains f [c] = has c f.
Proof. apply contains_single. Qed.

(* s.replace(QQ, Q) is the undoubling of Csv.v *)
Lemma find_qq_none s : find [QT; QT] s = None -> undouble s = s.
Proof.
  induction s as [|a s IH]; intros F; [reflexivity|].
  rewrite find_unfold in F. destruct (starts_with [QT; QT] (a :: s)) eqn:St; [discriminate|].
  destruct (find [QT; QT] s) eqn:F2; [discriminate|]. specialize (IH eq_refl).
  destruct s as [|b t]; [reflexivity|].
  cbn [undouble]. cbn [starts_with] in St.
  destruct (N.eqb a QT && N.eqb b QT) eqn:E.
  - apply andb_prop in E. destruct E as [Ea Eb]. apply N.eqb_eq in Ea, Eb. subst a b. cbn in St. discriminate.
  - f_equal. exact IH.
Qed.

Lemma find_qq_some s : forall i, find [QT; QT] s = Some i -> undouble s = firstn i s ++ QT :: undouble (skipn (i + 2) s).
Proof.
  induction s as [|a s IH]; intros i F; [discriminate|].
  rewrite find_unfold in F. destruct (starts_with [QT; QT] (a :: s)) eqn:St.
  - injection F as <-. cbn [starts_with] in St. destruct s as [|b t]; [rewrite andb_false_r in St; discriminate|].
    apply andb_prop in St. destruct St as [Ea St]. apply andb_prop in St. destruct St as [Eb _].
    apply N.eqb_eq in Ea, Eb. subst a b. rewrite undouble_pair. reflexivity.
  - destruct (find [QT; QT] s) as [j|] eqn:F2; [|discriminate]. cbn [option_map] in F. injection F as <-. specialize (IH j eq_refl).
    destruct s as [|b t]; [discriminate|].
    cbn [undouble]. cbn [starts_with] in St.
    destruct (N.eqb a QT && N.eqb b QT) eqn:E.
    + apply andb_prop in E. destruct E as [Ea Eb]. apply N.eqb_eq in Ea, Eb. subst a b. cbn in St. discriminate.
    + cbn [firstn skipn plus app]. f_equal. exact IH.
Qed.

Lemma replace_qq_undouble_n n : forall s, (length s <= n)%nat -> replace [QT; QT] [QT] s = undouble s.
Proof.
  induction n as [|n IH]; intros s Hl.
  - destruct s; [reflexivity|cbn in Hl; lia].
  - unfold replace. destruct (find [QT; QT] s) as [i|] eqn:F.
    + rewrite (split_some [QT; QT] s i ltac:(discriminate) F). pose proof (find_some_len _ _ _ F) as Hi. cbn [length] in Hi.
      rewrite join_cons by apply split_nonempty. rewrite (find_qq_some _ _ F).
      rewrite <- IH by (rewrite skipn_length; lia). reflexivity.
    + rewrite (split_none _ _ F). cbn [join]. symmetry. apply find_qq_none. exact F.
Qed.

Lemma py_replace_undouble s : py_replace s [QT; QT] [QT] = undouble s.
Proof. unfold py_replace. apply (replace_qq_undouble_n (length s)). lia. Qed.

(* s.replace(Q, QQ) is the doubling of Csv.v *)
Lemma find_q_none s : find [QT] s = None -> has QT s = false.
Proof. intros F. rewrite <- contains_single. unfold contains. rewrite F. reflexivity. Qed.

Lemma double_app a b : double (a ++ b) = double a ++ double b.
Proof. unfold double. apply flat_map_app. Qed.

Lemma replace_q_double_n n : forall s, (length s <= n)%nat -> replace [QT] [QT; QT] s = double s.
Proof.
  induction n as [|n IH]; intros s Hl.
  - destruct s; [reflexivity|cbn in Hl; lia].
  - unfold replace. destruct (find [QT] s) as [i|] eqn:F.
    + rewrite (split_some [QT] s i ltac:(discriminate) F). pose proof (find_some_len _ _ _ F) as Hi. cbn [length] in Hi.
      rewrite join_cons by apply split_nonempty.
      pose proof (find_some _ _ _ F) as Es. cbn [length] in Es. cbn [length].
      rewrite Es at 3. rewrite !double_app. rewrite <- (IH (skipn (i + 1) s)) by (rewrite skipn_length; lia). unfold replace.
      assert (has QT (firstn i s) = false) as Hq.
      { pose proof (find_prefix_exact _ _ _ F) as Hp. destruct (has QT (firstn i s)) eqn:Hh; [|reflexivity]. exfalso.
        apply has_true_in in Hh. apply in_split in Hh. destruct Hh as [u [v Ev]].
        rewrite Ev in Hp. rewrite <- app_assoc in Hp. cbn [app] in Hp.
        pose proof (find_min [QT] u (v ++ [QT]) _ Hp) as Hm. rewrite app_length in Hm. cbn [length] in Hm. lia. }
      rewrite (double_noquote _ Hq). cbn [double flat_map app]. rewrite N.eqb_refl. cbn [app]. reflexivity.
    + rewrite (split_none _ _ F). cbn [join]. symmetry. apply double_noquote. apply find_q_none. exact F.
Qed.

Lemma py_replace_double s : py_replace s [QT] [QT; QT] = double s.
Proof. unfold py_replace. apply (replace_q_double_n (length s)). lia. Qed.
