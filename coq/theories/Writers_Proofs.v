(* Writers_Proofs.v — the writer chain equals sort-then-dedup-then-truncate (C02), protocol facts (C15) *)
From RBQL Require Import Base Value Writers.

(* ---------- written: the accepted rows, in order ---------- *)
Definition acc_rows (tr : list event) : list row :=
  flat_map (fun e => match e with EvWrite r true => [r] | _ => [] end) tr.

Lemma written_cons_trace st e :
  acc_rows (rev (e :: s_trace st)) = acc_rows (rev (s_trace st)) ++ acc_rows [e].
Proof. cbn [rev]. unfold acc_rows. rewrite flat_map_app. reflexivity. Qed.

Lemma written_base_write w st r :
  written (fst (base_write w st r)) = written st ++ (if w (s_nwrites st) then [r] else []).
Proof.
  unfold written, base_write. cbn [fst s_trace]. change (flat_map _ ?l) with (acc_rows l).
  rewrite written_cons_trace. cbn. destruct (w (s_nwrites st)); reflexivity.
Qed.

Lemma written_base_finish st : written (base_finish st) = written st.
Proof.
  unfold written, base_finish. cbn [s_trace]. change (flat_map _ ?l) with (acc_rows l).
  rewrite written_cons_trace. cbn. rewrite app_nil_r. reflexivity.
Qed.

Lemma written_set_header st h : written (set_header st h) = written st.
Proof.
  unfold written, set_header. cbn [s_trace]. change (flat_map _ ?l) with (acc_rows l).
  rewrite written_cons_trace. cbn. rewrite app_nil_r. reflexivity.
Qed.

Section Yes.
Variable cfg : chain_cfg.

(* ---------- TopWriter ---------- *)
Definition top_room (st : chain_st) : option nat :=
  match c_top cfg with None => None | Some n => Some (n - s_NW st) end.

Definition take (o : option nat) (l : list row) : list row :=
  match o with None => l | Some n => firstn n l end.

Lemma take_nil o : take o [] = [].
Proof. destruct o; [apply firstn_nil | reflexivity]. Qed.

Lemma top_write_yes st r :
  match c_top cfg with
  | None => top_write yes cfg st r = (fst (base_write yes st r), true)
  | Some n => if Nat.leb n (s_NW st) then top_write yes cfg st r = (st, false)
              else exists st', top_write yes cfg st r = (st', true) /\ written st' = written st ++ [r]
                               /\ s_NW st' = S (s_NW st) /\ s_seen st' = s_seen st /\ s_counts st' = s_counts st
  end.
Proof.
  unfold top_write. destruct (c_top cfg) as [n|].
  - destruct (Nat.leb n (s_NW st)) eqn:E; [reflexivity|].
    unfold base_write, yes. cbn. eexists. split; [reflexivity|]. cbn.
    split; [|repeat split].
    unfold written. cbn [s_trace rev]. rewrite flat_map_app. cbn. reflexivity.
  - unfold base_write, yes. reflexivity.
Qed.

(* feeding rows to the TopWriter (stopping at its first refusal) writes the first (n - NW) of them *)
Lemma feed_top : forall (l : list row) st,
  written (feed (top_write yes cfg) st l) = written st ++ take (top_room st) l
  /\ s_counts (feed (top_write yes cfg) st l) = s_counts st.
Proof.
  induction l as [|r l IH]; intros st.
  - cbn [feed]. rewrite take_nil, app_nil_r. split; reflexivity.
  - cbn [feed]. pose proof (top_write_yes st r) as H. unfold top_room in *. destruct (c_top cfg) as [n|] eqn:Et.
    + destruct (Nat.leb n (s_NW st)) eqn:E.
      * rewrite H. apply Nat.leb_le in E. replace (n - s_NW st) with 0 by lia. cbn. rewrite app_nil_r. split; reflexivity.
      * destruct H as [st' [H1 [H2 [H3 [H4 H5]]]]]. rewrite H1. apply Nat.leb_gt in E.
        destruct (IH st') as [IH1 IH2]. rewrite IH1, IH2, H2, H5, H3. split; [|reflexivity].
        replace (n - s_NW st) with (S (n - S (s_NW st))) by lia. cbn [take firstn]. rewrite <- app_assoc. reflexivity.
    + rewrite H. cbn [fst]. destruct (IH (fst (base_write yes st r))) as [IH1 IH2]. rewrite IH1, IH2.
      rewrite written_base_write. unfold yes at 1. cbn [take]. rewrite <- app_assoc. split; reflexivity.
Qed.

(* ---------- UniqWriter ---------- *)
Lemma row_mem_existsb r l : row_mem r l = existsb (row_eqb r) l.
Proof. reflexivity. Qed.

Lemma firstn_le_app (n : nat) (a b : list row) : firstn n (a ++ b) = firstn n a ++ firstn (n - length a) b.
Proof. apply firstn_app. Qed.

Lemma feed_uniq_distinct : c_distinct cfg = DDistinct -> forall (l : list row) st,
  written (feed (uniq_write yes cfg) st l) = written st ++ take (top_room st) (dedup_first l (s_seen st)).
Proof.
  intros Hd. induction l as [|r l IH]; intros st.
  - cbn [feed dedup_first]. rewrite take_nil, app_nil_r. reflexivity.
  - cbn [feed dedup_first]. unfold uniq_write at 1. rewrite Hd. unfold row_mem.
    destruct (existsb (row_eqb r) (s_seen st)) eqn:Em.
    + rewrite IH. reflexivity.
    + set (st1 := {| s_trace := s_trace st; s_nwrites := s_nwrites st; s_NW := s_NW st; s_seen := r :: s_seen st;
                     s_counts := s_counts st; s_entries := s_entries st |}).
      pose proof (top_write_yes st1 r) as H. unfold top_room in *. destruct (c_top cfg) as [n|] eqn:Et.
      * change (s_NW st1) with (s_NW st) in H. destruct (Nat.leb n (s_NW st)) eqn:E.
        -- rewrite H. apply Nat.leb_le in E. replace (n - s_NW st) with 0 by lia. cbn. rewrite app_nil_r. reflexivity.
        -- destruct H as [st' [H1 [H2 [H3 [H4 H5]]]]]. rewrite H1. apply Nat.leb_gt in E.
           rewrite IH, H2, H4, H3. change (written st1) with (written st). change (s_seen st1) with (r :: s_seen st).
           replace (n - s_NW st) with (S (n - S (s_NW st))) by lia. cbn [take firstn]. rewrite <- app_assoc. reflexivity.
      * rewrite H. cbn [fst]. rewrite IH. rewrite written_base_write. change (written st1) with (written st).
        unfold yes at 1. cbn [take base_write fst s_seen]. rewrite <- app_assoc. reflexivity.
Qed.

(* ---------- UniqCountWriter ---------- *)
(* the count table after feeding l into an initially empty table *)
Definition counts_ok (cs : list (row * nat)) (seen : list row) : Prop := True.

Fixpoint count_all (l : list row) (cs : list (row * nat)) : list (row * nat) :=
  match l with [] => cs | r :: t => count_all t (count_incr r cs) end.

Lemma feed_uniq_count : c_distinct cfg = DCount -> forall (l : list row) st,
  written (feed (uniq_write yes cfg) st l) = written st
  /\ s_counts (feed (uniq_write yes cfg) st l) = count_all l (s_counts st)
  /\ s_NW (feed (uniq_write yes cfg) st l) = s_NW st.
Proof.
  intros Hd. induction l as [|r l IH]; intros st; [cbn; repeat split|].
  cbn [feed count_all]. unfold uniq_write at 1 3 5. rewrite Hd.
  destruct (IH {| s_trace := s_trace st; s_nwrites := s_nwrites st; s_NW := s_NW st; s_seen := s_seen st;
                  s_counts := count_incr r (s_counts st); s_entries := s_entries st |}) as [H1 [H2 H3]].
  rewrite H1, H2, H3. repeat split.
Qed.

End Yes.

(* ---------- DISTINCT COUNT: the count table is first occurrences with multiplicities ---------- *)
From RBQL Require Import Value_Proofs.

Definition keys_of (cs : list (row * nat)) : list row := map fst cs.

Fixpoint distinct_keys (l : list row) : Prop :=
  match l with [] => True | r :: t => existsb (row_eqb r) t = false /\ distinct_keys t end.

Lemma existsb_row_eqb_congr r r' l : row_eqb r r' = true -> existsb (row_eqb r) l = existsb (row_eqb r') l.
Proof. intros H. induction l as [|x l IH]; cbn; [reflexivity|]. rewrite IH, (row_eqb_left _ _ _ H). reflexivity. Qed.

Lemma existsb_app_row r a b : existsb (row_eqb r) (a ++ b) = existsb (row_eqb r) a || existsb (row_eqb r) b.
Proof. apply existsb_app. Qed.

Lemma dedup_first_ext : forall l s1 s2,
  (forall x, existsb (row_eqb x) s1 = existsb (row_eqb x) s2) -> dedup_first l s1 = dedup_first l s2.
Proof.
  induction l as [|r l IH]; intros s1 s2 H; [reflexivity|]. cbn. rewrite (H r).
  destruct (existsb (row_eqb r) s2); [apply IH; assumption|]. f_equal. apply IH. intros x. cbn. rewrite H. reflexivity.
Qed.

Lemma dedup_first_notin : forall l seen r0,
  In r0 (dedup_first l seen) -> existsb (row_eqb r0) seen = false.
Proof.
  induction l as [|r l IH]; intros seen r0 H; [contradiction|]. cbn in H.
  destruct (existsb (row_eqb r) seen) eqn:E; [apply IH in H; assumption|].
  destruct H as [<- | H]; [assumption|]. apply IH in H. cbn in H. apply orb_false_iff in H. apply H.
Qed.

Lemma mult_cons r x l : multiplicity r (x :: l) = (if row_eqb r x then 1 else 0) + multiplicity r l.
Proof. unfold multiplicity. cbn. destruct (row_eqb r x); reflexivity. Qed.

Lemma count_incr_hit : forall cs r, existsb (row_eqb r) (keys_of cs) = true -> distinct_keys (keys_of cs) ->
  keys_of (count_incr r cs) = keys_of cs /\
  count_incr r cs = map (fun e => (fst e, snd e + (if row_eqb (fst e) r then 1 else 0))) cs.
Proof.
  induction cs as [|[r' n] cs IH]; intros r H D; [discriminate|].
  cbn in H, D. destruct D as [D1 D2]. cbn [count_incr].
  destruct (row_eqb r r') eqn:E.
  - cbn. split; [reflexivity|]. rewrite row_eqb_sym, E. f_equal; [f_equal; lia|].
    (* the other keys are not equivalent to r *)
    rewrite <- (map_id cs) at 1. apply map_ext_in. intros [r2 n2] Hin. cbn.
    destruct (row_eqb r2 r) eqn:E2; [|f_equal; lia]. exfalso.
    assert (Hx : existsb (row_eqb r') (keys_of cs) = true).
    { apply existsb_exists. exists r2. split; [apply in_map_iff; exists (r2, n2); split; [reflexivity | assumption]|].
      rewrite row_eqb_sym. eapply row_eqb_trans; eassumption. }
    unfold keys_of in Hx. congruence.
  - cbn in H. destruct (IH r H D2) as [K1 K2]. unfold keys_of in *. cbn [map fst snd]. rewrite K1. split; [reflexivity|].
    rewrite <- K2. rewrite row_eqb_sym, E. f_equal. f_equal. lia.
Qed.

Lemma count_incr_miss : forall cs r, existsb (row_eqb r) (keys_of cs) = false -> count_incr r cs = cs ++ [(r, 1)].
Proof.
  induction cs as [|[r' n] cs IH]; intros r H; [reflexivity|]. cbn in H. apply orb_false_iff in H. destruct H as [H1 H2].
  cbn. rewrite H1, (IH r H2). reflexivity.
Qed.

Lemma distinct_keys_snoc : forall l r, distinct_keys l -> existsb (row_eqb r) l = false -> distinct_keys (l ++ [r]).
Proof.
  induction l as [|x l IH]; intros r D H; cbn; [split; [reflexivity | exact I]|].
  cbn in D, H. destruct D as [D1 D2]. apply orb_false_iff in H. destruct H as [H1 H2]. split.
  - rewrite existsb_app, D1. cbn. rewrite row_eqb_sym, H1. reflexivity.
  - apply IH; assumption.
Qed.

Lemma count_all_spec : forall l cs, distinct_keys (keys_of cs) ->
  count_all l cs = map (fun e => (fst e, snd e + multiplicity (fst e) l)) cs
                   ++ map (fun r => (r, multiplicity r l)) (dedup_first l (keys_of cs)).
Proof.
  induction l as [|r l IH]; intros cs D.
  - cbn. rewrite app_nil_r. rewrite <- (map_id cs) at 1. apply map_ext. intros [a n]. cbn. f_equal. unfold multiplicity. cbn. lia.
  - cbn [count_all dedup_first]. destruct (existsb (row_eqb r) (keys_of cs)) eqn:E.
    + destruct (count_incr_hit cs r E D) as [K1 K2]. rewrite IH by (rewrite K1; assumption). rewrite K1, K2, map_map. f_equal.
      * apply map_ext. intros [a n]. cbn [fst snd]. rewrite mult_cons. f_equal. lia.
      * apply map_ext_in. intros r0 Hin. rewrite mult_cons. apply dedup_first_notin in Hin.
        destruct (row_eqb r0 r) eqn:E0; [|reflexivity]. rewrite (existsb_row_eqb_congr _ _ _ E0) in Hin. congruence.
    + rewrite (count_incr_miss cs r E). rewrite IH.
      2:{ unfold keys_of. rewrite map_app. cbn. apply distinct_keys_snoc; assumption. }
      rewrite map_app. cbn [map fst snd]. rewrite <- app_assoc. cbn [app].
      assert (Hseen : dedup_first l (keys_of (cs ++ [(r, 1)])) = dedup_first l (r :: keys_of cs)).
      { apply dedup_first_ext. intros x. unfold keys_of. rewrite map_app, existsb_app. cbn. rewrite orb_false_r. apply orb_comm. }
      rewrite Hseen. f_equal.
      * apply map_ext_in. intros [a n] Hin. cbn [fst snd]. rewrite mult_cons.
        destruct (row_eqb a r) eqn:Ea; [|reflexivity]. exfalso.
        assert (Hx : existsb (row_eqb r) (keys_of cs) = true).
        { apply existsb_exists. exists a. split; [apply in_map_iff; exists (a, n); split; [reflexivity | assumption]|].
          rewrite row_eqb_sym. assumption. }
        congruence.
      * cbn [map]. f_equal.
        -- rewrite mult_cons, row_eqb_refl. reflexivity.
        -- apply map_ext_in. intros r0 Hin. rewrite mult_cons. apply dedup_first_notin in Hin. cbn in Hin.
           apply orb_false_iff in Hin. destruct Hin as [H1 _]. rewrite H1. reflexivity.
Qed.

Lemma count_rows_spec l : count_rows (count_all l []) = dedup DCount l.
Proof.
  rewrite (count_all_spec l [] I). cbn [map app keys_of]. unfold count_rows, dedup. rewrite map_map. reflexivity.
Qed.

(* ---------- the chain as a whole, for a writer that never refuses ---------- *)
Section Whole.
Variable cfg : chain_cfg.

Definition fresh (st : chain_st) : Prop :=
  s_NW st = 0 /\ s_seen st = [] /\ s_counts st = [] /\ s_entries st = [].

Lemma take_room0 st l : s_NW st = 0 -> take (top_room cfg st) l = trunc (c_top cfg) l.
Proof. intros H. unfold top_room, take, trunc. rewrite H. destruct (c_top cfg); [rewrite Nat.sub_0_r|]; reflexivity. Qed.

(* the stage below the SortedWriter *)
Definition fresh_below (st : chain_st) : Prop := s_NW st = 0 /\ s_seen st = [] /\ s_counts st = [].

Lemma uniq_stage st l : fresh_below st ->
  written (uniq_finish yes cfg (feed (uniq_write yes cfg) st l)) = written st ++ trunc (c_top cfg) (dedup (c_distinct cfg) l).
Proof.
  intros [F1 [F2 F3]]. unfold uniq_finish. destruct (c_distinct cfg) eqn:Ed.
  - rewrite written_base_finish.
    assert (E : feed (uniq_write yes cfg) st l = feed (top_write yes cfg) st l).
    { clear F1 F2 F3. revert st. induction l as [|r l IH]; intros st; [reflexivity|]. cbn [feed]. unfold uniq_write at 1. rewrite Ed.
      destruct (top_write yes cfg st r) as [st' ok]. destruct ok; [apply IH | reflexivity]. }
    rewrite E. destruct (feed_top cfg l st) as [H _]. rewrite H, take_room0 by assumption. reflexivity.
  - rewrite written_base_finish, (feed_uniq_distinct cfg Ed), F2, take_room0 by assumption. reflexivity.
  - rewrite written_base_finish. destruct (feed_uniq_count cfg Ed l st) as [H1 [H2 H3]].
    destruct (feed_top cfg (count_rows (s_counts (feed (uniq_write yes cfg) st l))) (feed (uniq_write yes cfg) st l)) as [H _].
    rewrite H, H1, H2, F3, take_room0 by (rewrite H3; assumption). rewrite count_rows_spec. reflexivity.
Qed.

Lemma chain_feed_sorted rv : c_order cfg = Some rv -> forall es st,
  chain_feed yes cfg st es =
  ({| s_trace := s_trace st; s_nwrites := s_nwrites st; s_NW := s_NW st; s_seen := s_seen st;
      s_counts := s_counts st; s_entries := s_entries st ++ es |}, true).
Proof.
  intros Ho. induction es as [|[k r] es IH]; intros st.
  - cbn. rewrite app_nil_r. destruct st; reflexivity.
  - cbn [chain_feed]. unfold chain_write. rewrite Ho. rewrite IH. cbn. rewrite <- app_assoc. reflexivity.
Qed.

Lemma chain_feed_unsorted : c_order cfg = None -> forall es st,
  fst (chain_feed yes cfg st es) = feed (uniq_write yes cfg) st (map snd es).
Proof.
  intros Ho. induction es as [|[k r] es IH]; intros st; [reflexivity|].
  cbn [chain_feed map snd feed]. unfold chain_write. rewrite Ho.
  destruct (uniq_write yes cfg st r) as [st' ok]. destruct ok; [apply IH | reflexivity].
Qed.

Theorem chain_correct es st : fresh st ->
  written (chain_finish yes cfg (fst (chain_feed yes cfg st es))) = written st ++ chain_spec cfg es.
Proof.
  intros F. unfold chain_finish, chain_spec, order_spec. destruct (c_order cfg) as [rv|] eqn:Ho.
  - rewrite (chain_feed_sorted rv Ho). cbn [fst s_entries]. destruct F as [F1 [F2 [F3 F4]]]. rewrite F4. cbn [app].
    rewrite uniq_stage; [reflexivity|]. repeat split; assumption.
  - rewrite (chain_feed_unsorted Ho). apply uniq_stage. destruct F as [F1 [F2 [F3 F4]]]. repeat split; assumption.
Qed.
End Whole.
