(* HeaderJs_Proofs.v - the JavaScript derivation of column infos from the TEXT of a select list (HeaderJs.v) agrees with the
   derivation from the SHAPE of its items (Header.v, the view of the Python port) on the syntax common to both languages. *)
From RBQL Require Import Base Expr Parser Header HeaderJs Parser_Combine_Proofs Parser_Update_Proofs.
Local Open Scope N_scope.

(* ------------------------------------------------------------------ a select item as written, and its shape *)
Definition tbl_ch (t : tbl) : ch := match t with TA => 97 | TB => 98 end.
Definition kw_as (upper : bool) : str := if upper then [65; 83] else [97; 115].

Inductive ritem :=
| RFieldVar (t : tbl) (ds : str)            (* aDS,   DS a decimal numeral of value >= 1 *)
| RFieldSub (t : tbl) (ds : str)            (* a[DS] *)
| RAttr (t : tbl) (name : str)              (* a.name *)
| RDict (t : tbl) (ks : str) (name : str)   (* a["name"] / a['name'] after separate_string_literals: a[___RBQL_STRING_LITERAL<ks>___],
                                               the literal number ks of the table being a quoted spelling of name *)
| RVar (name : str)                         (* bare identifier *)
| RStar | RStarA | RStarB                   (* the three star items *)
| RAs (e : str) (upper : bool) (gap : nat) (alias : str)     (* e as alias / e AS alias, 1 + gap spaces before the alias *)
| ROther (text : str).                      (* anything else *)

Definition shape (r : ritem) : hitem :=
  match r with
  | RFieldVar t ds | RFieldSub t ds => HField t (N.to_nat (N_of_digits ds - 1))
  | RAttr t n => HAttr t n
  | RDict t _ n => HDict t n
  | RVar n => HVar n
  | RStar => HStar | RStarA => HStarA | RStarB => HStarB
  | RAs _ _ _ a => HAs a
  | ROther _ => HOther
  end.

(* the text of the item as the user writes it *)
Definition render_item (r : ritem) : str :=
  match r with
  | RFieldVar t ds => tbl_ch t :: ds
  | RFieldSub t ds => tbl_ch t :: LBR :: ds ++ [RBR]
  | RAttr t n => tbl_ch t :: DOT :: n
  | RDict t ks _ => tbl_ch t :: LBR :: PH_PREFIX ++ ks ++ PH_SUFFIX ++ [RBR]
  | RVar n => n
  | RStar => [STAR]
  | RStarA => [97; DOT; STAR]
  | RStarB => [98; DOT; STAR]
  | RAs e up gap a => e ++ SP :: kw_as up ++ SP :: repeat SP gap ++ a
  | ROther x => x
  end.

Definition is_star_item (r : ritem) : bool := match r with RStar | RStarA | RStarB => true | _ => false end.

(* the text that reaches column_info_from_text_span: stars carry the marker *)
Definition render_marked (r : ritem) : str :=
  match r with
  | RStar => MARK
  | RStarA => [97; DOT] ++ MARK
  | RStarB => [98; DOT] ++ MARK
  | _ => render_item r
  end.

Definition numeral_ok (ds : str) : bool := nonempty ds && forallb is_digit ds && N.leb 1 (N_of_digits ds).
Definition looks_like_field (n : str) : bool :=
  match n with c :: ds => match tbl_of_ch c with Some _ => nonempty ds && forallb is_digit ds | None => false end | [] => false end.
Definition is_none {T} (o : option T) : bool := match o with None => true | Some _ => false end.

(* well-formedness of one item (the literal table is the one separate_string_literals produced) *)
Definition wf_item (lits : list str) (r : ritem) : bool :=
  match r with
  | RFieldVar _ ds | RFieldSub _ ds => numeral_ok ds
  | RAttr _ n => is_ident n && negb (str_eqb n MARK)
  | RDict _ ks n =>
      nonempty ks && forallb is_digit ks &&
      match lit_lookup lits ks with
      | Some q => match unquote_string q with Some n' => str_eqb n' n | None => false end
      | None => false
      end
  | RVar n => is_ident n && negb (str_eqb n MARK) && negb (starts_with PH_PREFIX n) && negb (looks_like_field n)
  | RStar | RStarA | RStarB => true
  | RAs e _ _ a =>
      is_alias_name a && nonempty (lstrip_by js_ws e) && forallb (dot_ok LJs) (lstrip_by js_ws e)
  | ROther x => is_none (info_js lits x)
  end.

(* ------------------------------------------------------------------ small facts *)
Lemma str_eqb_eq : forall a b, str_eqb a b = true -> a = b.
Proof.
  induction a as [|x a IH]; intros [|y b] H; try discriminate; [reflexivity|].
  cbn [str_eqb] in H. apply andb_true_iff in H. destruct H as [H1 H2]. apply N.eqb_eq in H1. subst. f_equal. apply IH. exact H2.
Qed.
Lemma str_eqb_refl : forall a, str_eqb a a = true.
Proof. induction a as [|x a IH]; [reflexivity|]. cbn [str_eqb]. rewrite N.eqb_refl, IH. reflexivity. Qed.

Lemma lstrip_head_out : forall f s, head_out f s = true -> lstrip_by f s = s.
Proof. intros f [|c s] H; [reflexivity|]. cbn [head_out] in H. apply negb_true_iff in H. cbn [lstrip_by]. rewrite H. reflexivity. Qed.

Lemma strip_by_id : forall f s, head_out f s = true -> head_out f (rev s) = true -> strip_by f s = s.
Proof.
  intros f s H1 H2. unfold strip_by, rstrip_by. rewrite (lstrip_head_out f s H1), (lstrip_head_out f (rev s) H2). apply rev_involutive.
Qed.

Lemma span_by_forall : forall f v, forallb f v = true -> span_by f v = (v, []).
Proof. intros f v H. rewrite <- (app_nil_r v) at 1. apply span_by_all; [exact H|reflexivity]. Qed.

Lemma forallb_rev : forall (f : ch -> bool) s, forallb f (rev s) = forallb f s.
Proof.
  intros f s. induction s as [|c s IH]; [reflexivity|]. cbn [rev forallb]. rewrite forallb_app, IH. cbn [forallb]. rewrite andb_true_r. apply andb_comm.
Qed.

(* a text without a space has no alias *)
Lemma as_alias_nospace : forall t, forallb not_sp t = true -> as_alias_match t = None.
Proof.
  intros t H. unfold as_alias_match. assert (Hr : forallb not_sp (rev t) = true) by (rewrite forallb_rev; exact H).
  assert (D : drop_sp (rev t) = rev t).
  { unfold drop_sp. apply lstrip_head_out. destruct (rev t) as [|c r]; [reflexivity|]. cbn [forallb] in Hr. apply andb_true_iff in Hr. exact (proj1 Hr). }
  rewrite D, (span_by_forall _ _ Hr). reflexivity.
Qed.

(* ------------------------------------------------------------------ character classes *)
Ltac cls_unfold := unfold not_sp, is_sp, js_ws, dot_ok, is_ident_start, is_word, is_alpha, is_upper, is_lower, is_digit, in_range, LF, CR, LBR, RBR, DOT, STAR, COMMA, SP in *.
Ltac cls_prop := repeat (rewrite ?negb_true_iff, ?negb_false_iff, ?orb_true_iff, ?orb_false_iff, ?andb_true_iff, ?andb_false_iff, ?N.leb_le, ?N.leb_gt, ?N.eqb_eq, ?N.eqb_neq in * ).
Ltac cls := cls_unfold; cls_prop; lia.

Lemma word_not_sp : forall c, is_word c = true -> not_sp c = true.
Proof. intros c H. cls. Qed.
Lemma word_not_ws : forall c, is_word c = true -> js_ws c = false.
Proof. intros c H. cls. Qed.
Lemma digit_word : forall c, is_digit c = true -> is_word c = true.
Proof. intros c H. cls. Qed.
Lemma alpha_word : forall c, is_alpha c = true -> is_word c = true.
Proof. intros c H. cls. Qed.
Lemma ident_start_word : forall c, is_ident_start c = true -> is_word c = true.
Proof. intros c H. cls. Qed.
Lemma word_not_digit_or : forall c, is_word c = true -> is_digit c = true \/ is_ident_start c = true.
Proof. intros c H. cls. Qed.
Lemma ident_start_not_digit : forall c, is_ident_start c = true -> is_digit c = false.
Proof. intros c H. cls. Qed.
Lemma sp_ws : forall c, is_sp c = true -> js_ws c = true.
Proof. intros c H. cls. Qed.
Lemma tbl_ch_word : forall t, is_ident_start (tbl_ch t) = true.
Proof. intros [|]; reflexivity. Qed.
Lemma tbl_of_tbl_ch : forall t, tbl_of_ch (tbl_ch t) = Some t.
Proof. intros [|]; reflexivity. Qed.
Lemma tbl_of_ch_inv : forall c t, tbl_of_ch c = Some t -> c = tbl_ch t.
Proof.
  intros c t H. unfold tbl_of_ch in H. destruct (N.eqb_spec c 97); [injection H as <-; assumption|].
  destruct (N.eqb_spec c 98); [injection H as <-; assumption|discriminate].
Qed.

Lemma forallb_imp : forall (f g : ch -> bool) s, (forall c, f c = true -> g c = true) -> forallb f s = true -> forallb g s = true.
Proof.
  intros f g s H. induction s as [|c s IH]; [reflexivity|]. cbn [forallb]. intro E. apply andb_true_iff in E. destruct E as [E1 E2].
  rewrite (H c E1), (IH E2). reflexivity.
Qed.

Lemma is_ident_word : forall s, is_ident s = true -> forallb is_word s = true /\ s <> [].
Proof.
  intros [|c s] H; [discriminate|]. cbn [is_ident] in H. apply andb_true_iff in H. destruct H as [H1 H2]. split; [|discriminate].
  cbn [forallb]. rewrite (ident_start_word c H1), H2. reflexivity.
Qed.
Lemma is_alias_name_word : forall s, is_alias_name s = true -> forallb is_word s = true /\ s <> [].
Proof.
  intros [|c s] H; [discriminate|]. cbn [is_alias_name] in H. apply andb_true_iff in H. destruct H as [H1 H2]. split; [|discriminate].
  cbn [forallb]. rewrite (alpha_word c H1), H2. reflexivity.
Qed.

(* the last character of a non-empty text of word characters is not blank *)
Lemma head_out_rev_word : forall f s, (forall c, is_word c = true -> f c = false) -> forallb is_word s = true -> head_out f (rev s) = true.
Proof.
  intros f s Hf H. rewrite <- forallb_rev in H. destruct (rev s) as [|c r]; [reflexivity|]. cbn [forallb] in H. apply andb_true_iff in H.
  cbn [head_out]. rewrite (Hf c (proj1 H)). reflexivity.
Qed.
Lemma head_out_word : forall f s, (forall c, is_word c = true -> f c = false) -> forallb is_word s = true -> head_out f s = true.
Proof.
  intros f [|c r] Hf H; [reflexivity|]. cbn [forallb] in H. apply andb_true_iff in H. cbn [head_out]. rewrite (Hf c (proj1 H)). reflexivity.
Qed.

(* ------------------------------------------------------------------ item by item *)
Lemma numeral_ok_inv : forall ds, numeral_ok ds = true ->
  nonempty ds = true /\ forallb is_digit ds = true /\ js_index ds = Z.of_nat (N.to_nat (N_of_digits ds - 1)).
Proof.
  intros ds H. unfold numeral_ok in H. apply andb_true_iff in H. destruct H as [H H3]. apply andb_true_iff in H. destruct H as [H1 H2].
  repeat split; try assumption. apply N.leb_le in H3. unfold js_index. rewrite N_nat_Z. lia.
Qed.

Lemma strip_plain : forall x, forallb is_word x = true -> strip_ws LJs x = x.
Proof. intros x H. apply strip_by_id; [apply head_out_word | apply head_out_rev_word]; try exact H; exact word_not_ws. Qed.

Lemma info_field_var : forall lits t ds, numeral_ok ds = true ->
  info_js lits (tbl_ch t :: ds) = Some (JIdx t (Z.of_nat (N.to_nat (N_of_digits ds - 1)))).
Proof.
  intros lits t ds H. destruct (numeral_ok_inv ds H) as (H1 & H2 & H3).
  assert (W : forallb is_word (tbl_ch t :: ds) = true).
  { cbn [forallb]. rewrite (ident_start_word _ (tbl_ch_word t)). exact (forallb_imp _ _ ds digit_word H2). }
  unfold info_js. rewrite (strip_plain _ W), (as_alias_nospace _ (forallb_imp _ _ _ word_not_sp W)).
  assert (I : is_ident (tbl_ch t :: ds) = true).
  { cbn [is_ident]. rewrite tbl_ch_word. exact (forallb_imp _ _ ds digit_word H2). }
  rewrite I. replace (str_eqb (tbl_ch t :: ds) MARK) with false by (destruct t; reflexivity).
  replace (starts_with PH_PREFIX (tbl_ch t :: ds)) with false by (destruct t; reflexivity).
  rewrite tbl_of_tbl_ch, H1, H2, H3. reflexivity.
Qed.

(* a text whose second character is '.' or '[' is not an identifier *)
Lemma not_ident_2 : forall c d r, is_word d = false -> is_ident (c :: d :: r) = false.
Proof. intros c d r H. cbn [is_ident forallb]. rewrite H. apply andb_false_r. Qed.

Lemma head_out_last : forall f s c, f c = false -> head_out f (rev (s ++ [c])) = true.
Proof. intros f s c H. rewrite rev_app_distr. cbn [rev app head_out]. rewrite H. reflexivity. Qed.

Lemma info_field_sub : forall lits t ds, numeral_ok ds = true ->
  info_js lits (tbl_ch t :: LBR :: ds ++ [RBR]) = Some (JIdx t (Z.of_nat (N.to_nat (N_of_digits ds - 1)))).
Proof.
  intros lits t ds H. destruct (numeral_ok_inv ds H) as (H1 & H2 & H3).
  unfold info_js, strip_ws. rewrite strip_by_id.
  2:{ cbn [head_out]. destruct t; reflexivity. }
  2:{ change (tbl_ch t :: LBR :: ds ++ [RBR]) with ((tbl_ch t :: LBR :: ds) ++ [RBR]). apply head_out_last. reflexivity. }
  rewrite as_alias_nospace.
  2:{ cbn [forallb]. rewrite forallb_app. rewrite (forallb_imp _ _ ds (fun c h => word_not_sp c (digit_word c h)) H2). destruct t; reflexivity. }
  rewrite not_ident_2 by reflexivity. rewrite tbl_of_tbl_ch. change (N.eqb LBR DOT) with false. change (N.eqb LBR LBR) with true. cbv iota.
  rewrite (span_by_all is_digit ds [RBR] H2 eq_refl). rewrite H1. change (str_eqb [RBR] [RBR]) with true. cbn [andb]. rewrite H3. reflexivity.
Qed.

Lemma info_attr : forall lits t n, is_ident n = true -> str_eqb n MARK = false ->
  info_js lits (tbl_ch t :: DOT :: n) = Some (JName n).
Proof.
  intros lits t n H M. destruct (is_ident_word n H) as [W Hne].
  unfold info_js, strip_ws. rewrite strip_by_id.
  2:{ cbn [head_out]. destruct t; reflexivity. }
  2:{ change (tbl_ch t :: DOT :: n) with ([tbl_ch t; DOT] ++ n). rewrite rev_app_distr. destruct (rev n) as [|c r] eqn:E.
      - apply (f_equal (@rev ch)) in E. rewrite rev_involutive in E. contradiction.
      - pose proof (head_out_rev_word js_ws n word_not_ws W) as Q. rewrite E in Q. exact Q. }
  rewrite as_alias_nospace.
  2:{ cbn [forallb]. rewrite (forallb_imp _ _ n word_not_sp W). destruct t; reflexivity. }
  rewrite not_ident_2 by reflexivity. rewrite tbl_of_tbl_ch. change (N.eqb DOT DOT) with true. cbv iota. rewrite H, M. reflexivity.
Qed.

Lemma span_digit_ph : forall Y, span_by is_digit (PH_PREFIX ++ Y) = ([], PH_PREFIX ++ Y).
Proof. intro Y. reflexivity. Qed.
Lemma strip_prefix_ph : forall Y, strip_prefix PH_PREFIX (PH_PREFIX ++ Y) = Some Y.
Proof. intro Y. reflexivity. Qed.

Lemma info_dict : forall lits t ks q n, nonempty ks = true -> forallb is_digit ks = true ->
  lit_lookup lits ks = Some q -> unquote_string q = Some n ->
  info_js lits (tbl_ch t :: LBR :: PH_PREFIX ++ ks ++ PH_SUFFIX ++ [RBR]) = Some (JName n).
Proof.
  intros lits t ks q n H1 H2 HL HU.
  unfold info_js, strip_ws. rewrite strip_by_id.
  2:{ cbn [head_out]. destruct t; reflexivity. }
  2:{ replace (tbl_ch t :: LBR :: PH_PREFIX ++ ks ++ PH_SUFFIX ++ [RBR]) with ((tbl_ch t :: LBR :: PH_PREFIX ++ ks ++ PH_SUFFIX) ++ [RBR]).
      - apply head_out_last. reflexivity.
      - rewrite <- !app_comm_cons, <- !app_assoc. reflexivity. }
  rewrite as_alias_nospace.
  2:{ cbn [forallb]. rewrite !forallb_app. rewrite (forallb_imp _ _ ks (fun c h => word_not_sp c (digit_word c h)) H2). destruct t; reflexivity. }
  rewrite not_ident_2 by reflexivity. rewrite tbl_of_tbl_ch. change (N.eqb LBR DOT) with false. change (N.eqb LBR LBR) with true. cbv iota.
  rewrite span_digit_ph. cbn [nonempty andb]. rewrite strip_prefix_ph.
  rewrite (span_by_all is_digit ks (PH_SUFFIX ++ [RBR]) H2 eq_refl). rewrite H1, str_eqb_refl. cbn [andb]. rewrite HL, HU. reflexivity.
Qed.

Lemma info_var : forall lits n, is_ident n = true -> str_eqb n MARK = false -> starts_with PH_PREFIX n = false -> looks_like_field n = false ->
  info_js lits n = Some (JName n).
Proof.
  intros lits n H M P F. destruct (is_ident_word n H) as [W Hne].
  unfold info_js. rewrite (strip_plain n W), (as_alias_nospace _ (forallb_imp _ _ _ word_not_sp W)), H, M, P.
  destruct n as [|c ds]; [contradiction|]. unfold looks_like_field in F. destruct (tbl_of_ch c); [rewrite F|]; reflexivity.
Qed.

Lemma info_star : forall lits, info_js lits MARK = Some (JStar None).
Proof. intro lits. reflexivity. Qed.
Lemma info_star_t : forall lits t, info_js lits (tbl_ch t :: DOT :: MARK) = Some (JStar (Some t)).
Proof. intros lits [|]; reflexivity. Qed.

(* ------------------------------------------------------------------ e AS alias *)
Lemma lstrip_app_nonempty : forall f e X, lstrip_by f e <> [] -> lstrip_by f (e ++ X) = lstrip_by f e ++ X.
Proof.
  intros f e X. induction e as [|c e IH]; intro H; [contradiction|]. cbn [app lstrip_by] in *. destruct (f c); [apply IH; exact H|reflexivity].
Qed.
Lemma rstrip_head_out : forall f s, head_out f (rev s) = true -> rstrip_by f s = s.
Proof. intros f s H. unfold rstrip_by. rewrite (lstrip_head_out f _ H). apply rev_involutive. Qed.
Lemma rev_repeat_ch : forall (x : ch) n, rev (repeat x n) = repeat x n.
Proof.
  intros x n. induction n as [|n IH]; [reflexivity|]. cbn [repeat rev]. rewrite IH. clear IH.
  induction n as [|n IH]; [reflexivity|]. cbn [repeat app]. rewrite IH. reflexivity.
Qed.
Lemma forallb_repeat_sp : forall n, forallb is_sp (repeat SP n) = true.
Proof. induction n as [|n IH]; [reflexivity|]. cbn [repeat forallb]. rewrite IH. reflexivity. Qed.

Definition as_text (e' : str) (up : bool) (gap : nat) (a : str) : str := e' ++ SP :: kw_as up ++ SP :: repeat SP gap ++ a.

Lemma rev_as_text : forall e' up gap a, rev (as_text e' up gap a) = rev a ++ repeat SP (S gap) ++ rev (kw_as up) ++ SP :: rev e'.
Proof.
  intros e' up gap a. unfold as_text.
  change (e' ++ SP :: kw_as up ++ SP :: repeat SP gap ++ a) with (e' ++ [SP] ++ kw_as up ++ repeat SP (S gap) ++ a).
  rewrite !rev_app_distr, rev_repeat_ch, <- !app_assoc. reflexivity.
Qed.

Lemma as_alias_found : forall e' up gap a, is_alias_name a = true -> forallb (dot_ok LJs) e' = true ->
  as_alias_match (as_text e' up gap a) = Some a.
Proof.
  intros e' up gap a Ha He. destruct (is_alias_name_word a Ha) as [W Hne].
  assert (Wr : forallb not_sp (rev a) = true) by (rewrite forallb_rev; exact (forallb_imp _ _ _ word_not_sp W)).
  unfold as_alias_match. rewrite rev_as_text.
  assert (D : forall Y, drop_sp (rev a ++ Y) = rev a ++ Y).
  { intro Y. unfold drop_sp. apply lstrip_head_out. destruct (rev a) as [|c r] eqn:E.
    - apply (f_equal (@rev ch)) in E. rewrite rev_involutive in E. contradiction.
    - cbn [forallb] in Wr. apply andb_true_iff in Wr. cbn [app head_out]. exact (proj1 Wr). }
  rewrite D. rewrite (span_by_all not_sp (rev a) _ Wr) by reflexivity.
  rewrite (span_by_all is_sp (repeat SP (S gap)) _ (forallb_repeat_sp (S gap))) by (destruct up; reflexivity).
  cbn [repeat]. rewrite rev_involutive. destruct up; cbn [kw_as rev app]; rewrite forallb_rev, He, Ha; reflexivity.
Qed.

Lemma strip_as_text : forall e up gap a, is_alias_name a = true -> lstrip_by js_ws e <> [] ->
  strip_ws LJs (as_text e up gap a) = as_text (lstrip_by js_ws e) up gap a.
Proof.
  intros e up gap a Ha He. destruct (is_alias_name_word a Ha) as [W Hne].
  unfold strip_ws, strip_by, as_text. change (ws LJs) with js_ws. rewrite (lstrip_app_nonempty js_ws e _ He).
  apply rstrip_head_out. fold (as_text (lstrip_by js_ws e) up gap a). rewrite rev_as_text.
  pose proof (head_out_rev_word js_ws a word_not_ws W) as Q. destruct (rev a) as [|c r] eqn:E.
  - apply (f_equal (@rev ch)) in E. rewrite rev_involutive in E. contradiction.
  - exact Q.
Qed.

Lemma info_as : forall lits e up gap a, is_alias_name a = true -> nonempty (lstrip_by js_ws e) = true ->
  forallb (dot_ok LJs) (lstrip_by js_ws e) = true -> info_js lits (as_text e up gap a) = Some (JAlias a).
Proof.
  intros lits e up gap a Ha Hn Hd. unfold info_js. rewrite strip_as_text; [|exact Ha|destruct (lstrip_by js_ws e); [discriminate|discriminate]].
  rewrite (as_alias_found _ up gap a Ha Hd). reflexivity.
Qed.

(* ------------------------------------------------------------------ one item: text-based = shape-based *)
Theorem info_js_agrees : forall lits r, wf_item lits r = true ->
  info_js lits (render_marked r) = option_map jinfo_of_cinfo (info_of (shape r)).
Proof.
  intros lits r H. destruct r as [t ds|t ds|t n|t ks n|n| | | |e up gap a|x]; cbn [render_marked render_item shape info_of option_map jinfo_of_cinfo wf_item] in *.
  - apply info_field_var. exact H.
  - apply info_field_sub. exact H.
  - apply andb_true_iff in H. destruct H as [H1 H2]. apply negb_true_iff in H2. apply info_attr; assumption.
  - apply andb_true_iff in H. destruct H as [H H3]. apply andb_true_iff in H. destruct H as [H1 H2].
    destruct (lit_lookup lits ks) as [q|] eqn:HL; [|discriminate]. destruct (unquote_string q) as [n'|] eqn:HU; [|discriminate].
    apply str_eqb_eq in H3. subst n'. exact (info_dict lits t ks q n H1 H2 HL HU).
  - apply andb_true_iff in H. destruct H as [H H4]. apply andb_true_iff in H. destruct H as [H H3]. apply andb_true_iff in H. destruct H as [H1 H2].
    apply negb_true_iff in H2, H3, H4. apply info_var; assumption.
  - apply info_star.
  - exact (info_star_t lits TA).
  - exact (info_star_t lits TB).
  - apply andb_true_iff in H. destruct H as [H H3]. apply andb_true_iff in H. destruct H as [H1 H2].
    exact (info_as lits e up gap a H1 H2 H3).
  - destruct (info_js lits x); [discriminate|reflexivity].
Qed.

(* ================================================================== select lists *)
(* ------------------------------------------------------------------ the star marking pass *)
(* the rest of a select list after an item: nothing, or a comma and more *)
Definition tail_ok (T : str) : Prop := T = [] \/ exists T', T = COMMA :: T'.

(* no root of a star match inside the text: the text does not begin (after spaces) with one of the three star spellings, and
   neither does what follows any of its commas *)
Fixpoint inner_star_free (x : str) : bool :=
  match x with
  | [] => true
  | c :: t => (if N.eqb c COMMA then is_none (star_body t) else true) && inner_star_free t
  end.
Definition star_free (x : str) : bool := is_none (star_body x) && inner_star_free x.

Lemma drop_sp_tail : forall T, tail_ok T -> drop_sp T = T.
Proof. intros T [->|[T' ->]]; reflexivity. Qed.
Lemma end_or_comma_tail : forall T, tail_ok T -> end_or_comma T = true.
Proof. intros T [->|[T' ->]]; reflexivity. Qed.
Lemma star_body_tail : forall T, tail_ok T -> star_body T = None.
Proof.
  intros T [->|[T' ->]]; [reflexivity|]. unfold star_body. change (drop_sp (COMMA :: T')) with (COMMA :: T').
  change (N.eqb COMMA STAR) with false. cbv iota. destruct T' as [|d [|e r]]; try reflexivity.
  destruct (N.eqb d DOT && N.eqb e STAR); reflexivity.
Qed.

Lemma star_scan_tail_state : forall T b, tail_ok T -> star_scan T b 0 = star_scan T false 0.
Proof.
  intros T b HT. destruct b; [|reflexivity]. destruct T as [|c T']; [reflexivity|]. cbn [star_scan].
  unfold try_star. rewrite (star_body_tail _ HT). reflexivity.
Qed.

Lemma star_body_app : forall x T, tail_ok T -> star_body x = None -> star_body (x ++ T) = None.
Proof.
  intros x T HT H. unfold star_body in *. destruct (drop_sp x) as [|c y] eqn:E.
  - assert (E2 : drop_sp (x ++ T) = T).
    { clear H. induction x as [|a x IH]; [exact (drop_sp_tail T HT)|]. unfold drop_sp in *. cbn [app lstrip_by] in *.
      destruct (is_sp a); [apply IH; exact E|discriminate]. }
    rewrite E2. pose proof (star_body_tail T HT) as Q. unfold star_body in Q. rewrite (drop_sp_tail T HT) in Q. exact Q.
  - unfold drop_sp in *. rewrite (lstrip_app_nonempty is_sp x T) by (rewrite E; discriminate). rewrite E. cbn [app].
    destruct (N.eqb c STAR); [discriminate|]. destruct y as [|d [|e r]].
    + destruct HT as [->|[T' ->]]; [reflexivity|]. cbn [app]. destruct T' as [|e r]; [reflexivity|]. change (N.eqb COMMA DOT) with false. reflexivity.
    + destruct HT as [->|[T' ->]]; [reflexivity|]. cbn [app]. change (N.eqb COMMA STAR) with false. rewrite andb_false_r. reflexivity.
    + cbn [app]. destruct (N.eqb d DOT && N.eqb e STAR); [|reflexivity]. destruct (N.eqb c 97); [discriminate|]. destruct (N.eqb c 98); [discriminate|reflexivity].
Qed.

(* a star-free stretch of text is copied *)
Lemma star_scan_free : forall x T b, tail_ok T -> inner_star_free x = true -> (b = true -> star_body x = None) ->
  star_scan (x ++ T) b 0 = x ++ star_scan T false 0.
Proof.
  induction x as [|c x IH]; intros T b HT HF Hb.
  - exact (star_scan_tail_state T b HT).
  - cbn [inner_star_free] in HF. apply andb_true_iff in HF. destruct HF as [HF1 HF2]. cbn [app star_scan].
    assert (E : (if b then try_star (c :: x ++ T) else None) = None).
    { destruct b; [|reflexivity]. unfold try_star. change (c :: x ++ T) with ((c :: x) ++ T). rewrite (star_body_app _ T HT (Hb eq_refl)). reflexivity. }
    rewrite E. f_equal. apply IH; [exact HT|exact HF2|]. intro Hc. rewrite Hc in HF1. destruct (star_body x); [discriminate|reflexivity].
Qed.

Definition star_kind (r : ritem) : starkind := match r with RStarA => StarA | RStarB => StarB | _ => StarAll end.

Lemma consumed_app : forall (u T : str), consumed (u ++ T) T = length u.
Proof. intros u T. unfold consumed. rewrite app_length. lia. Qed.

Lemma star_scan_skip : forall u T, star_scan (u ++ T) false (length u) = star_scan T false 0.
Proof. induction u as [|c u IH]; intro T; [reflexivity|]. cbn [app length star_scan]. apply IH. Qed.

Lemma try_star_item : forall r pre T, is_star_item r = true -> pre = [] \/ pre = [SP] -> tail_ok T ->
  try_star ((pre ++ render_item r) ++ T) = Some (length (pre ++ render_item r), star_kind r).
Proof.
  intros r pre T Hr Hp HT. unfold try_star, star_tail.
  assert (B : star_body ((pre ++ render_item r) ++ T) = Some (T, star_kind r)).
  { destruct Hp as [->| ->]; destruct r; try discriminate; reflexivity. }
  rewrite B, (drop_sp_tail T HT), (end_or_comma_tail T HT), consumed_app. reflexivity.
Qed.

(* a star item, at the beginning of the text or after ", ", is replaced by its marker - together with the space before it *)
Lemma star_scan_star : forall r pre T, is_star_item r = true -> pre = [] \/ pre = [SP] -> tail_ok T ->
  star_scan ((pre ++ render_item r) ++ T) true 0 = render_marked r ++ star_scan T false 0.
Proof.
  intros r pre T Hr Hp HT. pose proof (try_star_item r pre T Hr Hp HT) as E.
  destruct (pre ++ render_item r) as [|c u] eqn:U.
  { destruct Hp as [->| ->]; destruct r; discriminate. }
  cbn [app star_scan]. cbn [app] in E. rewrite E. cbn [length Nat.sub]. rewrite Nat.sub_0_r, star_scan_skip.
  destruct r; try discriminate; reflexivity.
Qed.

(* ------------------------------------------------------------------ the texts *)
Definition sep_item (r : ritem) : str := (if is_star_item r then [] else [SP]) ++ render_marked r.
Definition tail_src (rest : list ritem) : str := concat (map (fun x => COMMA :: SP :: render_item x) rest).
Definition tail_marked (rest : list ritem) : str := concat (map (fun x => COMMA :: sep_item x) rest).
Definition src_text (items : list ritem) : str := join [COMMA; SP] (map render_item items).
Definition marked_text (items : list ritem) : str :=
  match items with [] => [] | r :: rest => render_marked r ++ tail_marked rest end.

Lemma join_concat : forall (d : str) xs x, join d (x :: xs) = x ++ concat (map (fun y => d ++ y) xs).
Proof.
  intros d. induction xs as [|y xs IH]; intro x.
  - cbn. rewrite app_nil_r. reflexivity.
  - change (join d (x :: y :: xs)) with (x ++ d ++ join d (y :: xs)). rewrite (IH y). cbn [map concat]. rewrite <- app_assoc. reflexivity.
Qed.

Lemma join_tail : forall r rest, src_text (r :: rest) = render_item r ++ tail_src rest.
Proof.
  intros r rest. unfold src_text, tail_src. cbn [map]. rewrite join_concat, map_map. reflexivity.
Qed.

Lemma tail_src_ok : forall rest, tail_ok (tail_src rest).
Proof. intros [|y rest]; [left; reflexivity|right]. unfold tail_src. cbn [map concat app]. eexists. reflexivity. Qed.

(* per-item condition for the star pass *)
Definition star_ok (r : ritem) : bool := is_star_item r || star_free (render_item r).

Lemma star_scan_comma : forall t, star_scan (COMMA :: t) false 0 = COMMA :: star_scan t true 0.
Proof. reflexivity. Qed.

Lemma star_scan_tail : forall rest, forallb star_ok rest = true -> star_scan (tail_src rest) false 0 = tail_marked rest.
Proof.
  induction rest as [|y rest IH]; intro H; [reflexivity|]. cbn [forallb] in H. apply andb_true_iff in H. destruct H as [Hy Hr].
  unfold tail_src, tail_marked. cbn [map concat]. fold (tail_src rest). fold (tail_marked rest). cbn [app]. rewrite star_scan_comma.
  f_equal. unfold sep_item. destruct (is_star_item y) eqn:S.
  - change (SP :: render_item y ++ tail_src rest) with (([SP] ++ render_item y) ++ tail_src rest).
    rewrite (star_scan_star y [SP] _ S (or_intror eq_refl) (tail_src_ok rest)), (IH Hr). rewrite app_nil_l. reflexivity.
  - unfold star_ok in Hy. rewrite S in Hy. cbn [orb] in Hy. unfold star_free in Hy. apply andb_true_iff in Hy. destruct Hy as [Hy1 Hy2].
    change (SP :: render_item y ++ tail_src rest) with ((SP :: render_item y) ++ tail_src rest).
    rewrite (star_scan_free (SP :: render_item y) _ true (tail_src_ok rest)).
    + rewrite (IH Hr). replace (render_marked y) with (render_item y) by (destruct y; try discriminate; reflexivity). reflexivity.
    + cbn [inner_star_free]. exact Hy2.
    + intros _. destruct (star_body (render_item y)) eqn:Q; [discriminate|]. unfold star_body in *. exact Q.
Qed.

Theorem star_hdr_marked : forall items, forallb star_ok items = true -> star_hdr (src_text items) = marked_text items.
Proof.
  intros [|r rest] H; [reflexivity|]. cbn [forallb] in H. apply andb_true_iff in H. destruct H as [Hy Hr].
  rewrite join_tail. unfold star_hdr, marked_text. destruct (is_star_item r) eqn:S.
  - change (render_item r ++ tail_src rest) with (([] ++ render_item r) ++ tail_src rest).
    rewrite (star_scan_star r [] _ S (or_introl eq_refl) (tail_src_ok rest)), (star_scan_tail rest Hr). reflexivity.
  - unfold star_ok in Hy. rewrite S in Hy. cbn [orb] in Hy. unfold star_free in Hy. apply andb_true_iff in Hy. destruct Hy as [Hy1 Hy2].
    rewrite (star_scan_free (render_item r) _ true (tail_src_ok rest) Hy2).
    + rewrite (star_scan_tail rest Hr). replace (render_marked r) with (render_item r) by (destruct r; try discriminate; reflexivity). reflexivity.
    + intros _. destruct (star_body (render_item r)); [discriminate|reflexivity].
Qed.

(* ------------------------------------------------------------------ the root-level comma splitter *)
(* the bracket stack after a stretch of text that holds no root-level comma; None = root comma or bracket error *)
Fixpoint depth_scan (x : str) (stack : list ch) : option (list ch) :=
  match x with
  | [] => Some stack
  | c :: t =>
      if N.eqb c COMMA && negb (nonempty stack) then None
      else match br_step c stack with Some st => depth_scan t st | None => None end
  end.
(* balanced brackets, every comma inside brackets *)
Definition top_ok (x : str) : bool := match depth_scan x [] with Some [] => true | _ => false end.

Lemma split_top_nonempty : forall T st, split_top T st <> Some [].
Proof.
  induction T as [|c T IH]; intros st H.
  - cbn [split_top] in H. destruct st; discriminate.
  - cbn [split_top] in H. destruct (N.eqb c COMMA && negb (nonempty st)).
    + destruct (split_top T []); discriminate.
    + destruct (br_step c st) as [st1|]; [|discriminate]. destruct (split_top T st1) as [[|h r]|]; discriminate.
Qed.

Lemma split_chunk : forall x st st' T, depth_scan x st = Some st' ->
  split_top (x ++ T) st = match split_top T st' with Some (h :: r) => Some ((x ++ h) :: r) | _ => None end.
Proof.
  induction x as [|c x IH]; intros st st' T H.
  - cbn [depth_scan] in H. injection H as <-. cbn [app]. destruct (split_top T st) as [[|h r]|] eqn:E; try reflexivity. exfalso. exact (split_top_nonempty T st E).
  - cbn [depth_scan] in H. cbn [app split_top]. destruct (N.eqb c COMMA && negb (nonempty st)); [discriminate|].
    destruct (br_step c st) as [st1|]; [|discriminate]. rewrite (IH st1 st' T H).
    destruct (split_top T st') as [[|h r]|]; reflexivity.
Qed.

Lemma top_ok_sp : forall x, top_ok x = true -> depth_scan (SP :: x) [] = Some [].
Proof. intros x H. unfold top_ok in H. cbn. destruct (depth_scan x []) as [[|? ?]|]; try discriminate. reflexivity. Qed.
Lemma top_ok_scan : forall x, top_ok x = true -> depth_scan x [] = Some [].
Proof. intros x H. unfold top_ok in H. destruct (depth_scan x []) as [[|? ?]|]; try discriminate. reflexivity. Qed.

Lemma sep_item_scan : forall r, top_ok (render_marked r) = true -> depth_scan (sep_item r) [] = Some [].
Proof. intros r H. unfold sep_item. destruct (is_star_item r); [apply top_ok_scan|apply top_ok_sp]; exact H. Qed.

Lemma split_tail : forall rest, forallb (fun r => top_ok (render_marked r)) rest = true ->
  split_top (tail_marked rest) [] = Some ([] :: map sep_item rest).
Proof.
  induction rest as [|y rest IH]; intro H; [reflexivity|]. cbn [forallb] in H. apply andb_true_iff in H. destruct H as [Hy Hr].
  unfold tail_marked. cbn [map concat]. fold (tail_marked rest). cbn [app split_top]. change (N.eqb COMMA COMMA && negb (nonempty [])) with true. cbv iota.
  rewrite (split_chunk _ _ _ _ (sep_item_scan y Hy)), (IH Hr). rewrite app_nil_r. reflexivity.
Qed.

Lemma split_marked : forall r rest, forallb (fun r => top_ok (render_marked r)) (r :: rest) = true ->
  split_top (marked_text (r :: rest)) [] = Some (render_marked r :: map sep_item rest).
Proof.
  intros r rest H. cbn [forallb] in H. apply andb_true_iff in H. destruct H as [Hy Hr]. unfold marked_text.
  rewrite (split_chunk _ _ _ _ (top_ok_scan _ Hy)), (split_tail rest Hr). rewrite app_nil_r. reflexivity.
Qed.

(* ------------------------------------------------------------------ blanks *)
Definition trimmed (x : str) : bool := nonempty x && head_out js_ws x && head_out js_ws (rev x).

Lemma trimmed_strip : forall x, trimmed x = true -> strip_ws LJs x = x.
Proof.
  intros x H. unfold trimmed in H. apply andb_true_iff in H. destruct H as [H H3]. apply andb_true_iff in H. destruct H as [H1 H2].
  apply strip_by_id; assumption.
Qed.
Lemma trimmed_strip_sp : forall x, trimmed x = true -> strip_ws LJs (SP :: x) = x.
Proof.
  intros x H. rewrite <- (trimmed_strip x H) at 2. unfold strip_ws, strip_by. reflexivity.
Qed.
Lemma strip_sep_item : forall r, trimmed (render_marked r) = true -> strip_ws LJs (sep_item r) = render_marked r.
Proof. intros r H. unfold sep_item. destruct (is_star_item r); [apply trimmed_strip|apply trimmed_strip_sp]; exact H. Qed.

Lemma head_out_app_ne : forall f (x y : str), x <> [] -> head_out f (x ++ y) = head_out f x.
Proof. intros f [|c x] y H; [contradiction|reflexivity]. Qed.
Lemma head_out_rev_app : forall f (A B : str), B <> [] -> head_out f (rev (A ++ B)) = head_out f (rev B).
Proof.
  intros f A B H. rewrite rev_app_distr. apply head_out_app_ne. intro E. apply (f_equal (@rev ch)) in E. rewrite rev_involutive in E. contradiction.
Qed.
Lemma head_out_ws_sp : forall x, head_out js_ws x = true -> head_out is_sp x = true.
Proof.
  intros [|c x] H; [reflexivity|]. cbn [head_out] in *. apply negb_true_iff in H. apply negb_true_iff.
  destruct (is_sp c) eqn:E; [|reflexivity]. rewrite (sp_ws c E) in H. discriminate.
Qed.
Lemma trimmed_inv : forall x, trimmed x = true -> x <> [] /\ head_out js_ws x = true /\ head_out js_ws (rev x) = true.
Proof.
  intros x H. unfold trimmed in H. apply andb_true_iff in H. destruct H as [H H3]. apply andb_true_iff in H. destruct H as [H1 H2].
  repeat split; try assumption. destruct x; [discriminate|discriminate].
Qed.

Lemma marked_last : forall rest pre, trimmed pre = true -> forallb (fun r => trimmed (render_marked r)) rest = true ->
  head_out is_sp (rev (pre ++ tail_marked rest)) = true.
Proof.
  induction rest as [|y rest IH]; intros pre Hp H.
  - unfold tail_marked. cbn [map concat]. rewrite app_nil_r. apply head_out_ws_sp. exact (proj2 (proj2 (trimmed_inv pre Hp))).
  - cbn [forallb] in H. apply andb_true_iff in H. destruct H as [Hy Hr]. unfold tail_marked. cbn [map concat]. fold (tail_marked rest).
    unfold sep_item. replace (pre ++ (COMMA :: (if is_star_item y then [] else [SP]) ++ render_marked y) ++ tail_marked rest)
      with ((pre ++ COMMA :: (if is_star_item y then [] else [SP])) ++ (render_marked y ++ tail_marked rest)).
    + rewrite head_out_rev_app; [exact (IH _ Hy Hr)|]. destruct (trimmed_inv _ Hy) as [Hne _]. destruct (render_marked y); [contradiction|discriminate].
    + rewrite <- !app_assoc. cbn [app]. rewrite <- !app_assoc. reflexivity.
Qed.

Lemma strip_sp_marked : forall items, forallb (fun r => trimmed (render_marked r)) items = true ->
  strip_sp (marked_text items) = marked_text items.
Proof.
  intros [|r rest] H; [reflexivity|]. cbn [forallb] in H. apply andb_true_iff in H. destruct H as [Hy Hr]. unfold strip_sp, marked_text.
  destruct (trimmed_inv _ Hy) as (Hne & Hh & _). apply strip_by_id.
  - rewrite head_out_app_ne by exact Hne. apply head_out_ws_sp. exact Hh.
  - exact (marked_last rest _ Hy Hr).
Qed.

(* ------------------------------------------------------------------ the select list *)
Definition item_ok (lits : list str) (r : ritem) : bool :=
  wf_item lits r && star_ok r && trimmed (render_marked r) && top_ok (render_marked r).

Definition expected_infos (items : list ritem) : list (option jinfo) :=
  map (option_map jinfo_of_cinfo) (map info_of (map shape items)).

Theorem infos_js_agrees : forall lits items, items <> [] -> forallb (item_ok lits) items = true ->
  infos_js (src_text items) lits = Some (expected_infos items).
Proof.
  intros lits items Hne H.
  assert (H1 : forallb (wf_item lits) items = true /\ forallb star_ok items = true /\
               forallb (fun r => trimmed (render_marked r)) items = true /\ forallb (fun r => top_ok (render_marked r)) items = true).
  { clear Hne. induction items as [|r items IH]; [repeat split|]. cbn [forallb] in *. apply andb_true_iff in H. destruct H as [Hr Hi].
    destruct (IH Hi) as (A & B & C & D). unfold item_ok in Hr. apply andb_true_iff in Hr. destruct Hr as [Hr R4]. apply andb_true_iff in Hr. destruct Hr as [Hr R3].
    apply andb_true_iff in Hr. destruct Hr as [R1 R2]. rewrite A, B, C, D, R1, R2, R3, R4. repeat split. }
  destruct H1 as (A & B & C & D). unfold infos_js, adhoc_infos, split_spans. rewrite (star_hdr_marked items B), (strip_sp_marked items C).
  destruct items as [|r rest]; [contradiction|]. rewrite (split_marked r rest D). cbn [option_map]. f_equal. unfold expected_infos.
  cbn [forallb] in A, C. apply andb_true_iff in A, C. destruct A as [A1 A2], C as [C1 C2]. cbn [map]. f_equal.
  - rewrite <- (info_js_agrees lits r A1). unfold info_js. rewrite (trimmed_strip _ C1), (trimmed_strip _ C1). reflexivity.
  - clear D B Hne H. induction rest as [|y rest IH]; [reflexivity|]. cbn [forallb] in A2, C2. apply andb_true_iff in A2, C2. destruct A2 as [A2 A3], C2 as [C2 C3].
    cbn [map]. f_equal; [|exact (IH A3 C3)]. rewrite (strip_sep_item y C2). rewrite <- (info_js_agrees lits y A2).
    unfold info_js. rewrite (trimmed_strip _ C2). reflexivity.
Qed.

(* ------------------------------------------------------------------ the header built from the infos *)
Definition jhres_of_hres (r : hres) : jhres :=
  match r with HNone => JHNone | HSome h => JHSome (map Some h) | HErr => JHErr end.
Definition inj_infos (infos : list (option cinfo)) : list (option jinfo) := map (option_map jinfo_of_cinfo) infos.

Lemma js_idx_name_nat : forall hdr i pos,
  js_idx_name hdr (Z.of_nat i) pos = Some (match nth_error hdr i with Some n => n | None => colK (S pos) end).
Proof.
  intros hdr i pos. unfold js_idx_name. destruct (Z.ltb_spec (Z.of_nat i) (Z.of_nat (length hdr))) as [L|L].
  - destruct (Z.ltb_spec (Z.of_nat i) 0) as [L0|L0]; [lia|]. rewrite Nat2Z.id.
    destruct (nth_error hdr i) eqn:E; [reflexivity|]. apply nth_error_None in E. lia.
  - destruct (nth_error hdr i) eqn:E; [|reflexivity]. assert (i < length hdr)%nat by (apply nth_error_Some; rewrite E; discriminate). lia.
Qed.

Lemma py_idx_name_nat : forall hdr i pos,
  py_idx_name hdr (Z.of_nat i) pos = Some (match nth_error hdr i with Some n => n | None => colK (S pos) end).
Proof.
  intros hdr i pos. unfold py_idx_name. destruct (Z.ltb_spec (Z.of_nat i) (Z.of_nat (length hdr))) as [L|L].
  - destruct (Z.ltb_spec (Z.of_nat i) 0) as [L0|L0]; [lia|]. rewrite Nat2Z.id.
    destruct (nth_error hdr i) eqn:E; [reflexivity|]. apply nth_error_None in E. lia.
  - destruct (nth_error hdr i) eqn:E; [|reflexivity]. assert (i < length hdr)%nat by (apply nth_error_Some; rewrite E; discriminate). lia.
Qed.

Lemma build_header_js_inj : forall ih jh infos out,
  build_header_js ih jh (inj_infos infos) (map Some out) = map Some (build_header ih jh infos out).
Proof.
  intros ih jh. induction infos as [|q infos IH]; intro out; [reflexivity|]. unfold inj_infos in *. cbn [map build_header_js build_header].
  destruct q as [[[[|]|]|[|] i|n|a]|]; cbn [option_map jinfo_of_cinfo]; rewrite ?js_idx_name_nat, ?map_length;
    try destruct (nth_error ih i); try destruct (nth_error jh i); rewrite <- IH; rewrite ?map_app; reflexivity.
Qed.

Lemma build_header_pyz_inj : forall ih jh infos out,
  build_header_pyz ih jh (inj_infos infos) out = Some (build_header ih jh infos out).
Proof.
  intros ih jh. induction infos as [|q infos IH]; intro out; [reflexivity|]. unfold inj_infos in *. cbn [map build_header_pyz build_header].
  destruct q as [[[[|]|]|[|] i|n|a]|]; cbn [option_map jinfo_of_cinfo]; rewrite ?py_idx_name_nat;
    try destruct (nth_error ih i); try destruct (nth_error jh i); rewrite <- IH; reflexivity.
Qed.

Lemma existsb_inj : forall infos,
  existsb is_star_jinfo (inj_infos infos) = existsb is_star_info infos /\ existsb is_alias_jinfo (inj_infos infos) = existsb is_alias_info infos.
Proof.
  induction infos as [|q infos [IH1 IH2]]; [split; reflexivity|]. unfold inj_infos in *. cbn [map existsb]. rewrite IH1, IH2.
  split; destruct q as [[| | |]|]; reflexivity.
Qed.

Theorem select_output_header_js_inj : forall ih jh infos,
  select_output_header_js ih jh (inj_infos infos) = jhres_of_hres (select_output_header ih jh infos).
Proof.
  intros ih jh infos. unfold select_output_header_js, select_output_header. destruct (existsb_inj infos) as [-> ->].
  destruct ih as [i|].
  - cbn [jhres_of_hres]. f_equal. exact (build_header_js_inj i _ infos (@nil str)).
  - destruct (existsb is_star_info infos && existsb is_alias_info infos); [reflexivity|].
    destruct (negb (existsb is_alias_info infos)); [reflexivity|]. cbn [jhres_of_hres]. f_equal. exact (build_header_js_inj (@nil str) (@nil str) infos (@nil str)).
Qed.

(* the header of a rendered select list: the JS derivation from the text = the derivation from the shapes (C07's model) *)
Theorem header_js_agrees : forall (lits : list str) (items : list ritem) (ih jh : option (list str)) (dc : bool), items <> [] -> forallb (item_ok lits) items = true ->
  option_map (fun qs : list (option jinfo) => select_output_header_js ih jh (if dc then None :: qs else qs)) (infos_js (src_text items) lits)
  = Some (jhres_of_hres (output_header ih jh (HQSelect (map shape items) dc))).
Proof.
  intros lits items ih jh dc Hne H. rewrite (infos_js_agrees lits items Hne H). cbn [option_map output_header]. f_equal.
  unfold expected_infos. fold (inj_infos (map info_of (map shape items))). destruct dc.
  - change (None :: inj_infos (map info_of (map shape items))) with (inj_infos (None :: map info_of (map shape items))).
    apply select_output_header_js_inj.
  - apply select_output_header_js_inj.
Qed.

(* ------------------------------------------------------------------ the list-level side conditions are automatic for the plain items *)
Definition inK (c : ch) : bool := is_word c || N.eqb c DOT || N.eqb c LBR || N.eqb c RBR.        (* [a-zA-Z0-9_.\[\]] *)
Definition no_star_comma (c : ch) : bool := negb (N.eqb c STAR) && negb (N.eqb c COMMA).
Definition plain_ch (c : ch) : bool := negb (N.eqb c COMMA) && negb (is_open c) && negb (is_close c).

Lemma inK_nsc : forall c, inK c = true -> no_star_comma c = true.
Proof. intros c H. unfold inK, no_star_comma in *. cls. Qed.
Lemma inK_not_ws : forall c, inK c = true -> js_ws c = false.
Proof. intros c H. unfold inK in *. cls. Qed.
Lemma word_inK : forall c, is_word c = true -> inK c = true.
Proof. intros c H. unfold inK. rewrite H. reflexivity. Qed.
Lemma word_plain : forall c, is_word c = true -> plain_ch c = true.
Proof. intros c H. unfold plain_ch, is_open, is_close, LBRACE, RBRACE, LPAR, RPAR. cls. Qed.

Lemma forallb_lstrip : forall (f g : ch -> bool) x, forallb g x = true -> forallb g (lstrip_by f x) = true.
Proof.
  intros f g x. induction x as [|c x IH]; intro H; [reflexivity|]. cbn [lstrip_by]. destruct (f c); [|exact H].
  cbn [forallb] in H. apply andb_true_iff in H. exact (IH (proj2 H)).
Qed.

Lemma star_free_nsc : forall x, forallb no_star_comma x = true -> star_free x = true.
Proof.
  intros x H. unfold star_free. apply andb_true_iff. split.
  - unfold star_body, drop_sp. pose proof (forallb_lstrip is_sp _ x H) as Q. destruct (lstrip_by is_sp x) as [|c r]; [reflexivity|].
    cbn [forallb] in Q. apply andb_true_iff in Q. destruct Q as [Q1 Q2]. unfold no_star_comma in Q1. apply andb_true_iff in Q1.
    destruct Q1 as [Q1 _]. apply negb_true_iff in Q1. rewrite Q1. destruct r as [|d [|e r']]; try reflexivity.
    cbn [forallb] in Q2. apply andb_true_iff in Q2. destruct Q2 as [_ Q2]. apply andb_true_iff in Q2. destruct Q2 as [Q2 _].
    unfold no_star_comma in Q2. apply andb_true_iff in Q2. destruct Q2 as [Q2 _]. apply negb_true_iff in Q2. rewrite Q2, andb_false_r. reflexivity.
  - induction x as [|c x IH]; [reflexivity|]. cbn [forallb] in H. apply andb_true_iff in H. destruct H as [H1 H2]. cbn [inner_star_free].
    unfold no_star_comma in H1. apply andb_true_iff in H1. destruct H1 as [_ H1]. apply negb_true_iff in H1. rewrite H1. exact (IH H2).
Qed.

Lemma trimmed_inK : forall x, x <> [] -> forallb inK x = true -> trimmed x = true.
Proof.
  intros x Hne H. unfold trimmed. destruct x as [|c x]; [contradiction|]. cbn [nonempty andb].
  apply andb_true_iff. split.
  - cbn [forallb] in H. apply andb_true_iff in H. cbn [head_out]. rewrite (inK_not_ws c (proj1 H)). reflexivity.
  - rewrite <- forallb_rev in H. destruct (rev (c :: x)) as [|d r]; [reflexivity|]. cbn [forallb] in H. apply andb_true_iff in H.
    cbn [head_out]. rewrite (inK_not_ws d (proj1 H)). reflexivity.
Qed.

Lemma depth_scan_plain : forall x y st, forallb plain_ch x = true -> depth_scan (x ++ y) st = depth_scan y st.
Proof.
  induction x as [|c x IH]; intros y st H; [reflexivity|]. cbn [forallb] in H. apply andb_true_iff in H. destruct H as [H1 H2].
  cbn [app depth_scan]. unfold plain_ch in H1. apply andb_true_iff in H1. destruct H1 as [H1 Hc]. apply andb_true_iff in H1. destruct H1 as [Hk Ho].
  apply negb_true_iff in Hk, Ho, Hc. rewrite Hk. cbn [andb]. unfold br_step. rewrite Ho, Hc. exact (IH y st H2).
Qed.

Lemma top_ok_plain : forall x, forallb plain_ch x = true -> top_ok x = true.
Proof. intros x H. unfold top_ok. rewrite <- (app_nil_r x), (depth_scan_plain x [] [] H). reflexivity. Qed.

Lemma top_ok_bracketed : forall p y, forallb plain_ch p = true -> forallb plain_ch y = true -> top_ok (p ++ LBR :: y ++ [RBR]) = true.
Proof.
  intros p y Hp Hy. unfold top_ok. rewrite (depth_scan_plain p _ [] Hp). cbn [depth_scan]. change (N.eqb LBR COMMA && negb (nonempty [])) with false. cbv iota.
  change (br_step LBR []) with (Some [LBR]). cbv iota. rewrite (depth_scan_plain y [RBR] [LBR] Hy). reflexivity.
Qed.

Definition is_plain (r : ritem) : bool := match r with RAs _ _ _ _ | ROther _ => false | _ => true end.

Lemma digits_word : forall ds, forallb is_digit ds = true -> forallb is_word ds = true.
Proof. intros ds H. exact (forallb_imp _ _ ds digit_word H). Qed.

Lemma item_ok_from_K : forall lits r, wf_item lits r = true -> is_star_item r = false -> render_marked r = render_item r ->
  render_item r <> [] -> forallb inK (render_item r) = true -> top_ok (render_item r) = true -> item_ok lits r = true.
Proof.
  intros lits r W S E Hne K T. unfold item_ok, star_ok. rewrite W, S, E, T, (trimmed_inK _ Hne K).
  rewrite (star_free_nsc _ (forallb_imp _ _ _ inK_nsc K)). reflexivity.
Qed.

Theorem item_ok_plain : forall lits r, is_plain r = true -> wf_item lits r = true -> item_ok lits r = true.
Proof.
  intros lits r P W. destruct r as [t ds|t ds|t n|t ks n|n| | | |e up gap a|x]; try discriminate; try (unfold item_ok; rewrite W; reflexivity).
  - (* aDS *) destruct (numeral_ok_inv ds W) as (H1 & H2 & _). pose proof (digits_word ds H2) as Wd.
    apply item_ok_from_K; try reflexivity; try exact W; try discriminate; cbn [render_item].
    + cbn [forallb]. rewrite (word_inK _ (ident_start_word _ (tbl_ch_word t))). exact (forallb_imp _ _ ds word_inK Wd).
    + apply top_ok_plain. cbn [forallb]. rewrite (word_plain _ (ident_start_word _ (tbl_ch_word t))). exact (forallb_imp _ _ ds word_plain Wd).
  - (* a[DS] *) destruct (numeral_ok_inv ds W) as (H1 & H2 & _). pose proof (digits_word ds H2) as Wd.
    apply item_ok_from_K; try reflexivity; try exact W; try discriminate; cbn [render_item].
    + cbn [forallb]. rewrite forallb_app, (word_inK _ (ident_start_word _ (tbl_ch_word t))), (forallb_imp _ _ ds word_inK Wd). reflexivity.
    + apply (top_ok_bracketed [tbl_ch t] ds); [destruct t; reflexivity|exact (forallb_imp _ _ ds word_plain Wd)].
  - (* a.name *) cbn [wf_item] in W. apply andb_true_iff in W. destruct W as [W1 W2]. destruct (is_ident_word n W1) as [Wn _].
    apply item_ok_from_K; try reflexivity; try discriminate; cbn [render_item wf_item].
    + rewrite W1, W2. reflexivity.
    + cbn [forallb]. rewrite (word_inK _ (ident_start_word _ (tbl_ch_word t))), (forallb_imp _ _ n word_inK Wn). reflexivity.
    + apply top_ok_plain. cbn [forallb]. rewrite (word_plain _ (ident_start_word _ (tbl_ch_word t))), (forallb_imp _ _ n word_plain Wn). reflexivity.
  - (* a[literal] *) pose proof W as W0. cbn [wf_item] in W. apply andb_true_iff in W. destruct W as [W _]. apply andb_true_iff in W. destruct W as [H1 H2].
    pose proof (digits_word ks H2) as Wd.
    apply item_ok_from_K; try reflexivity; try exact W0; try discriminate; cbn [render_item].
    + cbn [forallb]. rewrite !forallb_app, (word_inK _ (ident_start_word _ (tbl_ch_word t))), (forallb_imp _ _ ks word_inK Wd). reflexivity.
    + replace (tbl_ch t :: LBR :: PH_PREFIX ++ ks ++ PH_SUFFIX ++ [RBR]) with ([tbl_ch t] ++ LBR :: (PH_PREFIX ++ ks ++ PH_SUFFIX) ++ [RBR])
        by (cbn [app]; rewrite <- !app_assoc; reflexivity).
      apply top_ok_bracketed; [destruct t; reflexivity|]. rewrite !forallb_app, (forallb_imp _ _ ks word_plain Wd). reflexivity.
  - (* identifier *) pose proof W as W0. cbn [wf_item] in W. apply andb_true_iff in W. destruct W as [W _]. apply andb_true_iff in W. destruct W as [W _].
    apply andb_true_iff in W. destruct W as [W1 _]. destruct (is_ident_word n W1) as [Wn Hne].
    apply item_ok_from_K; try reflexivity; try exact W0; try exact Hne; cbn [render_item].
    + exact (forallb_imp _ _ n word_inK Wn).
    + apply top_ok_plain. exact (forallb_imp _ _ n word_plain Wn).
Qed.

(* ------------------------------------------------------------------ the usual spelling of a field number: str(i + 1) *)
Lemma dec_fuel_nonempty : forall f n acc, acc <> [] -> dec_fuel f n acc <> [].
Proof.
  induction f as [|f IH]; intros n acc H; [exact H|]. cbn [dec_fuel]. destruct (N.ltb n 10); [discriminate|]. apply IH. discriminate.
Qed.

Theorem numeral_dec : forall i, numeral_ok (Parser.dec_of_nat (S i)) = true /\ N.to_nat (N_of_digits (Parser.dec_of_nat (S i)) - 1) = i.
Proof.
  intro i. unfold numeral_ok. unfold Parser.dec_of_nat at 3 4. rewrite dec_of_N_val. split; [|lia].
  apply andb_true_iff. split; [apply andb_true_iff; split|apply N.leb_le; lia].
  - unfold Parser.dec_of_nat, dec_of_N. cbn [dec_fuel]. destruct (N.ltb (N.of_nat (S i)) 10); [reflexivity|].
    match goal with |- nonempty (dec_fuel ?f ?n ?acc) = true => pose proof (dec_fuel_nonempty f n acc ltac:(discriminate)) as Q; destruct (dec_fuel f n acc); [contradiction|reflexivity] end.
  - pose proof (dec_digits (S i)) as D. induction D as [|c l Hc _ IH]; [reflexivity|]. cbn [forallb]. rewrite IH, andb_true_r. cls.
Qed.

(* ------------------------------------------------------------------ unquote_string inverts the usual quoting of a name *)
Definition esc (q : ch) (name : str) : str := flat_map (fun c => if N.eqb c BSL || N.eqb c q then [BSL; c] else [c]) name.
Definition dbl (name : str) : str := flat_map (fun c => if N.eqb c BSL then [BSL; BSL] else [c]) name.
Definition quote (q : ch) (name : str) : str := q :: esc q name ++ [q].

(* one pass of unesc over a character-wise encoding: every character is written as itself (not a backslash) or as a backslash
   followed by a character that unesc_char maps back to it *)
Lemma unesc_plain : forall c t, c <> BSL -> unesc (c :: t) = c :: unesc t.
Proof. intros c [|d t] H; [reflexivity|]. cbn [unesc]. rewrite (proj2 (N.eqb_neq c BSL) H). reflexivity. Qed.
Lemma unesc_hit : forall d z t, unesc_char d = Some z -> unesc (BSL :: d :: t) = z :: unesc t.
Proof. intros d z t H. cbn [unesc]. rewrite N.eqb_refl, H. reflexivity. Qed.

Definition good_enc (enc : ch -> str) : Prop :=
  forall c, (enc c = [c] /\ c <> BSL) \/ (exists d, enc c = [BSL; d] /\ unesc_char d = Some c).

Lemma unesc_flat : forall enc, good_enc enc -> forall n, unesc (flat_map enc n) = n.
Proof.
  intros enc G. induction n as [|c n IH]; [reflexivity|]. cbn [flat_map].
  destruct (G c) as [[E Hc]|[d [E Hd]]]; rewrite E; cbn [app].
  - rewrite unesc_plain by exact Hc. rewrite IH. reflexivity.
  - rewrite (unesc_hit d c _ Hd). rewrite IH. reflexivity.
Qed.

Lemma esc_good : forall q, q = APOS \/ q = QT -> good_enc (fun c => if N.eqb c BSL || N.eqb c q then [BSL; c] else [c]).
Proof.
  intros q Hq c. destruct (N.eqb_spec c BSL) as [->|Hc]; cbn [orb].
  - right. exists BSL. split; reflexivity.
  - destruct (N.eqb_spec c q) as [->|Hc2].
    + right. exists q. split; [reflexivity|]. destruct Hq as [->| ->]; reflexivity.
    + left. split; [reflexivity|exact Hc].
Qed.

Lemma last_opt_app : forall (s : str) c, last_opt (s ++ [c]) = Some c.
Proof.
  induction s as [|d s IH]; intro c; [reflexivity|]. cbn [app]. specialize (IH c). destruct (s ++ [c]) eqn:E; [destruct s; discriminate|].
  cbn [last_opt]. exact IH.
Qed.

(* unquote_string of  q body q  is the unescaped body *)
Lemma unquote_wrapped : forall q body, q = APOS \/ q = QT -> unquote_string (q :: body ++ [q]) = Some (unesc body).
Proof.
  intros q body Hq. unfold unquote_string. replace (Nat.ltb (length (q :: body ++ [q])) 2) with false.
  2:{ symmetry. apply Nat.ltb_ge. cbn [length]. rewrite app_length. cbn [length]. lia. }
  replace (last_opt (q :: body ++ [q])) with (Some q) by (symmetry; apply (last_opt_app (q :: body) q)).
  assert (I : inner (q :: body ++ [q]) = body) by (unfold inner; cbn [tl]; apply removelast_last).
  rewrite I, N.eqb_refl, andb_true_r. destruct Hq as [->| ->]; reflexivity.
Qed.

(* 'name' / "name" with backslashes and the quote character escaped (the spelling both languages read back as name) *)
Theorem unquote_quote : forall q name, q = APOS \/ q = QT -> unquote_string (quote q name) = Some name.
Proof.
  intros q name Hq. unfold quote. rewrite (unquote_wrapped q (esc q name) Hq). unfold esc. rewrite (unesc_flat _ (esc_good q Hq)). reflexivity.
Qed.

(* ------------------------------------------------------------------ sufficient conditions for "none of the regexes accepts the text" *)
Lemma span_by_split : forall f s a b, span_by f s = (a, b) -> s = a ++ b /\ forallb f a = true.
Proof.
  intros f. induction s as [|c s IH]; intros a b H.
  - cbn [span_by] in H. injection H as <- <-. split; reflexivity.
  - cbn [span_by] in H. destruct (f c) eqn:Fc.
    + destruct (span_by f s) as [a' b'] eqn:E. injection H as <- <-. destruct (IH a' b' eq_refl) as [-> Ha]. split; [reflexivity|].
      cbn [forallb]. rewrite Fc, Ha. reflexivity.
    + injection H as <- <-. split; reflexivity.
Qed.
Lemma strip_prefix_split : forall p s r, strip_prefix p s = Some r -> s = p ++ r.
Proof.
  induction p as [|c p IH]; intros s r H; [cbn in H; injection H as ->; reflexivity|]. destruct s as [|d s]; [discriminate|].
  cbn [strip_prefix] in H. destruct (N.eqb_spec c d) as [->|]; [|discriminate]. cbn [app]. f_equal. exact (IH s r H).
Qed.

(* whatever column_info_from_text_span recognises without an alias is written in [a-zA-Z0-9_.\[\]] *)
Lemma info_some_inK : forall lits x j, as_alias_match (strip_ws LJs x) = None -> info_js lits x = Some j ->
  forallb inK (strip_ws LJs x) = true.
Proof.
  intros lits x j HA H. unfold info_js in H. rewrite HA in H. set (t := strip_ws LJs x) in *. clearbody t.
  destruct (is_ident t) eqn:I.
  { exact (forallb_imp _ _ t word_inK (proj1 (is_ident_word t I))). }
  destruct t as [|c [|d r]]; try discriminate. destruct (tbl_of_ch c) as [tb|] eqn:T; [|discriminate].
  apply tbl_of_ch_inv in T. subst c. cbn [forallb]. rewrite (word_inK _ (ident_start_word _ (tbl_ch_word tb))). cbn [andb].
  destruct (N.eqb_spec d DOT) as [->|Hd].
  - destruct (is_ident r) eqn:Ir; [|discriminate]. change (inK DOT) with true. cbn [andb].
    exact (forallb_imp _ _ r word_inK (proj1 (is_ident_word r Ir))).
  - destruct (N.eqb_spec d LBR) as [->|Hd2]; [|discriminate]. change (inK LBR) with true. cbn [andb].
    destruct (span_by is_digit r) as [ds r2] eqn:S1. destruct (span_by_split _ _ _ _ S1) as [-> Hds].
    destruct (nonempty ds && str_eqb r2 [RBR]) eqn:C1.
    + apply andb_true_iff in C1. destruct C1 as [_ C1]. apply str_eqb_eq in C1. subst r2. rewrite forallb_app.
      rewrite (forallb_imp _ _ ds (fun c h => word_inK c (digit_word c h)) Hds). reflexivity.
    + destruct (strip_prefix PH_PREFIX (ds ++ r2)) as [r3|] eqn:P; [|discriminate]. apply strip_prefix_split in P. rewrite P.
      destruct (span_by is_digit r3) as [ks r4] eqn:S2. destruct (span_by_split _ _ _ _ S2) as [-> Hks].
      destruct (nonempty ks && str_eqb r4 (PH_SUFFIX ++ [RBR])) eqn:C2; [|discriminate].
      apply andb_true_iff in C2. destruct C2 as [_ C2]. apply str_eqb_eq in C2. subst r4. rewrite !forallb_app.
      rewrite (forallb_imp _ _ ks (fun c h => word_inK c (digit_word c h)) Hks). reflexivity.
Qed.

(* a text with a character outside [a-zA-Z0-9_.\[\]] and without an alias at its end is an "other" item *)
Theorem other_by_char : forall lits x, as_alias_match (strip_ws LJs x) = None ->
  existsb (fun c => negb (inK c)) (strip_ws LJs x) = true -> info_js lits x = None.
Proof.
  intros lits x HA HE. destruct (info_js lits x) as [j|] eqn:E; [|reflexivity]. pose proof (info_some_inK lits x j HA E) as K.
  exfalso. apply existsb_exists in HE. destruct HE as (c & Hin & Hc). rewrite forallb_forall in K. rewrite (K c Hin) in Hc. discriminate.
Qed.

(* ------------------------------------------------------------------ the alias scanner is exactly the regex: every match has the shape
   e ++ " as" / " AS" ++ (1 + gap spaces) ++ alias ++ (k spaces), with e free of line terminators and alias an [a-zA-Z][a-zA-Z0-9_]* word
   (with as_alias_found: that shape, without trailing spaces, is matched) *)
Lemma all_sp_repeat : forall l, forallb is_sp l = true -> l = repeat SP (length l).
Proof.
  induction l as [|c l IH]; intro H; [reflexivity|]. cbn [forallb] in H. apply andb_true_iff in H. destruct H as [H1 H2].
  cbn [length repeat]. unfold is_sp in H1. apply N.eqb_eq in H1. subst c. f_equal. exact (IH H2).
Qed.
Lemma drop_sp_split : forall r, exists k, r = repeat SP k ++ drop_sp r.
Proof.
  induction r as [|c r [k IH]]; [exists 0%nat; reflexivity|]. unfold drop_sp in *. cbn [lstrip_by]. destruct (is_sp c) eqn:E.
  - exists (S k). unfold is_sp in E. apply N.eqb_eq in E. subst c. cbn [repeat app]. f_equal. exact IH.
  - exists 0%nat. reflexivity.
Qed.

Theorem as_alias_sound : forall t a, as_alias_match t = Some a ->
  exists e up gap k, t = as_text e up gap a ++ repeat SP k /\ forallb (dot_ok LJs) e = true /\ is_alias_name a = true.
Proof.
  intros t a H. unfold as_alias_match in H. destruct (drop_sp_split (rev t)) as [k Hk].
  destruct (span_by not_sp (drop_sp (rev t))) as [al_rev r2] eqn:S1. destruct (span_by_split _ _ _ _ S1) as [E1 _].
  destruct (span_by is_sp r2) as [sps r3] eqn:S2. destruct (span_by_split _ _ _ _ S2) as [E2 Hsp].
  destruct sps as [|s0 sps]; [discriminate|]. destruct r3 as [|c1 [|c2 [|c3 rest]]]; try discriminate.
  destruct (((N.eqb c1 115 && N.eqb c2 97) || (N.eqb c1 83 && N.eqb c2 65)) && is_sp c3 && forallb (dot_ok LJs) rest && is_alias_name (rev al_rev)) eqn:C; [|discriminate].
  injection H as <-. apply andb_true_iff in C. destruct C as [C C4]. apply andb_true_iff in C. destruct C as [C C3]. apply andb_true_iff in C. destruct C as [C1 C2].
  unfold is_sp in C2. apply N.eqb_eq in C2. subst c3.
  assert (U : exists up, [c1; c2] = rev (kw_as up)).
  { apply orb_true_iff in C1. destruct C1 as [C1|C1]; apply andb_true_iff in C1; destruct C1 as [A B]; apply N.eqb_eq in A, B; subst c1 c2; [exists false|exists true]; reflexivity. }
  destruct U as [up U]. exists (rev rest), up, (length sps), k. split; [|split; [rewrite forallb_rev; exact C3|exact C4]].
  rewrite <- (rev_involutive t), Hk, E1, E2, (all_sp_repeat _ Hsp). cbn [length].
  change (c1 :: c2 :: 32 :: rest) with ([c1; c2] ++ SP :: rest). rewrite U.
  rewrite <- (rev_involutive (as_text (rev rest) up (length sps) (rev al_rev) ++ repeat SP k)). f_equal.
  rewrite rev_app_distr, rev_as_text, !rev_involutive, rev_repeat_ch. reflexivity.
Qed.

(* hence: a text whose last word is not an [a-zA-Z][a-zA-Z0-9_]* word has no alias *)
Corollary as_alias_none_shape : forall t,
  (forall e up gap a k, t = as_text e up gap a ++ repeat SP k -> is_alias_name a = false) -> as_alias_match t = None.
Proof.
  intros t H. destruct (as_alias_match t) as [a|] eqn:E; [|reflexivity]. destruct (as_alias_sound t a E) as (e & up & gap & k & Ht & _ & Ha).
  rewrite (H e up gap a k Ht) in Ha. discriminate.
Qed.

Lemma drop_sp_repeat : forall k Y, drop_sp (repeat SP k ++ Y) = drop_sp Y.
Proof. induction k as [|k IH]; intro Y; [reflexivity|]. cbn [repeat app]. unfold drop_sp in *. cbn [lstrip_by]. change (is_sp SP) with true. cbv iota. exact (IH Y). Qed.

Theorem as_alias_complete : forall e up gap a k, is_alias_name a = true -> forallb (dot_ok LJs) e = true ->
  as_alias_match (as_text e up gap a ++ repeat SP k) = Some a.
Proof.
  intros e up gap a k Ha He. pose proof (as_alias_found e up gap a Ha He) as F. unfold as_alias_match in *.
  rewrite rev_app_distr, rev_repeat_ch, drop_sp_repeat. exact F.
Qed.

(* ------------------------------------------------------------------ witnesses of disagreement between the two ports *)
(* aN with N = 0 (a variable the user's init code may define): both ports take it for column number 0, index -1;
   JavaScript then reads input_header[-1] = undefined, Python reads input_header[-1] = the LAST name *)
Definition hdr_xy : list str := [[120]; [121]].
Theorem a0_info : info_js [] [97; 48] = Some (JIdx TA (-1)).
Proof. vm_compute. reflexivity. Qed.
Theorem a0_headers_differ :
  build_header_js hdr_xy [] [Some (JIdx TA (-1))] [] = [None] /\ build_header_pyz hdr_xy [] [Some (JIdx TA (-1))] [] = Some [[121]].
Proof. vm_compute. split; reflexivity. Qed.
Theorem a0_headerless_differ :
  build_header_js [] [] [Some (JIdx TA (-1)); Some (JAlias [122])] [] = [None; Some [122]] /\
  build_header_pyz [] [] [Some (JIdx TA (-1)); Some (JAlias [122])] [] = None.
Proof. vm_compute. split; reflexivity. Qed.

(* the JavaScript regexes see the TEXT: a parenthesised column variable, blanks inside the brackets or an identifier outside
   ASCII are "other" items for rbql-js, while the Python ast sees the same HField / HDict / HVar shape with or without them *)
Definition T_paren_a1 : str := [40; 97; 49; 41].                                   (* (a1) *)
Definition T_spaced_dict : str := [97; 91; 32] ++ placeholder 0 ++ [32; 93].       (* a[ "x" ] after literal separation *)
Definition T_eacute : str := [233].                                                (* the identifier e-acute *)
Theorem js_text_only :
  info_js [] T_paren_a1 = None /\ info_js [[34; 120; 34]] T_spaced_dict = None /\ info_js [] T_eacute = None /\
  info_js [[34; 120; 34]] ([97; 91] ++ placeholder 0 ++ [93]) = Some (JName [120]).
Proof. vm_compute. repeat split; reflexivity. Qed.
