(* WarnCsv_Proofs.v — the CSV-level warnings are EXACT (C14): each is reported if and only if its condition occurred.
     reader (records_of_lines = both stream readers):
       BOM warning          <-> the first physical line starts with the byte order mark of the assumed encoding
       defective-line       <-> some non-comment logical row is split with a warning; the line cited is the FIRST such row's;
                                under quoted_rfc the same condition is the error (RErr) citing that record and line
     writer (write_table, a run without error):
       None warning         <-> some cell of some record (header included) is / contains None
       delimiter warning    <-> the policy is simple / whitespace and the port's detector fires on some record
                                (Python: delimiters in the joined line + 1 <> number of fields; JS: delimiter inside the concatenation) *)
From RBQL Require Import Base Lines Csv CsvSpec CsvWriter Reader CsvStr_Proofs Csv_Proofs CsvLossy_Proofs.

(* ------------------------------------------------------------------ BOM *)

Definition bom_of (e : enc) : option str :=
  match e with EncUtf8 => Some [BOMC] | EncLatin1 => Some [239; 187; 191]%N | EncNone => None end.

Definition line_has_bom (e : enc) (l : str) : bool :=
  match bom_of e with Some b => starts_with b l | None => false end.

Lemma str_eqb_refl s : str_eqb s s = true.
Proof. induction s as [|a s IH]; cbn [str_eqb]; [reflexivity|]. rewrite N.eqb_refl. exact IH. Qed.

Lemma str_eqb_length a : forall b, str_eqb a b = true -> length a = length b.
Proof.
  induction a as [|x a IH]; intros [|y b] H; cbn [str_eqb] in H; try discriminate; [reflexivity|].
  apply andb_true_iff in H. destruct H as [_ H]. cbn [length]. f_equal. apply IH. exact H.
Qed.

Lemma remove_bom_changes e l : str_eqb (remove_utf8_bom l e) l = negb (line_has_bom e l).
Proof.
  unfold line_has_bom, remove_utf8_bom, bom_of. destruct e.
  - apply str_eqb_refl.
  - destruct l as [|a t]; [reflexivity|]. cbn [starts_with]. destruct (N.eqb a BOMC) eqn:E.
    + apply N.eqb_eq in E. subst a. rewrite N.eqb_refl. cbn [andb starts_with negb].
      destruct (str_eqb t (BOMC :: t)) eqn:F; [|reflexivity]. apply str_eqb_length in F. cbn [length] in F. lia.
    + rewrite N.eqb_sym, E. cbn [andb negb]. apply str_eqb_refl.
  - assert (forall x y : N, N.eqb x y && false = false) as F0 by (intros; apply andb_false_r).
    destruct l as [|a [|b [|c t]]]; cbn [starts_with]; rewrite ?F0, ?andb_false_r; cbn [negb]; try apply str_eqb_refl.
    rewrite (N.eqb_sym a), (N.eqb_sym b), (N.eqb_sym c).
    destruct (N.eqb 239 a); cbn [andb negb]; [|apply str_eqb_refl].
    destruct (N.eqb 187 b); cbn [andb negb]; [|apply str_eqb_refl].
    destruct (N.eqb 191 c); cbn [andb negb]; [|apply str_eqb_refl].
    destruct (str_eqb t (a :: b :: c :: t)) eqn:F; [|reflexivity]. apply str_eqb_length in F. cbn [length] in F. lia.
Qed.

Lemma strip_bom_first_flag e lines :
  snd (strip_bom_first e lines) = match lines with l :: _ => line_has_bom e l | [] => false end.
Proof.
  destruct lines as [|l r]; [reflexivity|]. cbn [strip_bom_first]. rewrite remove_bom_changes.
  destruct (line_has_bom e l); reflexivity.
Qed.

(* ------------------------------------------------------------------ defective line *)

Section Reader.
  Variable split : str -> list str * bool.

  Definition warns (r : str * nat) : bool := snd (split (fst r)).
  Definition first_warn (rows : list (str * nat)) : option (str * nat) := List.find warns rows.

  (* position (1-based, counted from nr) of the first warning row *)
  Fixpoint first_warn_nr (nr : nat) (rows : list (str * nat)) : option (nat * nat) :=
    match rows with
    | [] => None
    | r :: t => if warns r then Some (S nr, snd r) else first_warn_nr (S nr) t
    end.

  Lemma first_warn_nr_none nr rows : first_warn_nr nr rows = None <-> first_warn rows = None.
  Proof.
    revert nr. induction rows as [|r t IH]; intros nr; cbn [first_warn_nr first_warn List.find]; [tauto|].
    destruct (warns r); [split; discriminate|]. apply IH.
  Qed.

  Lemma parse_rows_defective c : forall rows nr fdl finfo,
    match parse_rows split c nr fdl finfo rows with
    | inl (_, (_, fdl', _)) =>
        match fdl with
        | Some x => fdl' = Some x
        | None => if c_rfc c then fdl' = None /\ first_warn_nr nr rows = None
                  else fdl' = option_map snd (first_warn_nr nr rows)
        end
    | inr e => fdl = None /\ c_rfc c = true /\ first_warn_nr nr rows = Some e
    end.
  Proof.
    induction rows as [|[line nl] t IH]; intros nr fdl finfo.
    - cbn [parse_rows first_warn_nr]. destruct fdl; [reflexivity|]. destruct (c_rfc c); [split|]; reflexivity.
    - cbn [parse_rows first_warn_nr]. replace (warns (line, nl)) with (snd (split line)) by reflexivity.
      destruct (split line) as [record warning] eqn:Esp. cbn [snd].
      destruct warning.
      + destruct fdl as [x|].
        * cbn [andb].
          specialize (IH (S nr) (Some x) (fields_info_add finfo (length record) (S nr))).
          destruct (parse_rows split c (S nr) (Some x) _ t) as [[recs [[nr' fdl'] fin]]|e]; [exact IH|].
          destruct IH as [IH _]. discriminate.
        * cbn [andb]. destruct (c_rfc c) eqn:R.
          -- repeat split; reflexivity.
          -- specialize (IH (S nr) (Some nl) (fields_info_add finfo (length record) (S nr))).
             destruct (parse_rows split c (S nr) (Some nl) _ t) as [[recs [[nr' fdl'] fin]]|e]; [exact IH|].
             destruct IH as [IH _]. discriminate.
      + cbn [andb].
        specialize (IH (S nr) fdl (fields_info_add finfo (length record) (S nr))).
        destruct (parse_rows split c (S nr) fdl _ t) as [[recs [[nr' fdl'] fin]]|e]; exact IH.
  Qed.

  Definition data_rows (c : cfg) (lines : list str) : list (str * nat) :=
    filter (fun r => negb (is_comment c (fst r))) (logical_rows c (fst (strip_bom_first (c_enc c) lines))).

  (* the whole reader: BOM flag, defective line, rfc error *)
  Theorem reader_warnings_exact c lines :
    match records_of_lines split c lines with
    | ROk _ _ w _ _ =>
        w_bom w = match lines with l :: _ => line_has_bom (c_enc c) l | [] => false end /\
        (if c_rfc c then w_defective w = None /\ first_warn (data_rows c lines) = None
         else w_defective w = option_map snd (first_warn_nr 0 (data_rows c lines)))
    | RErr nr nl => c_rfc c = true /\ first_warn_nr 0 (data_rows c lines) = Some (nr, nl)
    end.
  Proof.
    unfold records_of_lines, data_rows. pose proof (strip_bom_first_flag (c_enc c) lines) as Hb.
    destruct (strip_bom_first (c_enc c) lines) as [lines1 bom]. cbn [fst snd] in *.
    pose proof (parse_rows_defective c (filter (fun r => negb (is_comment c (fst r))) (logical_rows c lines1)) 0 None []) as H.
    destruct (parse_rows split c 0 None [] _) as [[recs [[nr fdl] finfo]]|[nr nl]].
    - cbn [w_bom w_defective mk_warnings]. split; [exact Hb|].
      destruct (c_rfc c); [|exact H]. destruct H as [H1 H2]. split; [exact H1|]. apply (proj1 (first_warn_nr_none 0 _)) in H2. exact H2.
    - destruct H as [_ [H1 H2]]. split; assumption.
  Qed.

  (* the "if and only if" readings *)
  Corollary bom_warning_iff c lines recs h w nl nr :
    records_of_lines split c lines = ROk recs h w nl nr ->
    (w_bom w = true <-> exists l rest, lines = l :: rest /\ line_has_bom (c_enc c) l = true).
  Proof.
    intros E. pose proof (reader_warnings_exact c lines) as H. rewrite E in H. destruct H as [H _]. rewrite H.
    destruct lines as [|l rest]; split.
    - discriminate.
    - intros [l [rest [X _]]]. discriminate.
    - intros Hl. exists l, rest. split; [reflexivity|exact Hl].
    - intros [l' [rest' [X Hl]]]. injection X as -> ->. exact Hl.
  Qed.

  Corollary defective_warning_iff c lines recs h w nl nr :
    c_rfc c = false -> records_of_lines split c lines = ROk recs h w nl nr ->
    (w_defective w <> None <-> exists r, In r (data_rows c lines) /\ snd (split (fst r)) = true).
  Proof.
    intros R E. pose proof (reader_warnings_exact c lines) as H. rewrite E, R in H. destruct H as [_ H]. rewrite H.
    split.
    - intros Hn. destruct (first_warn_nr 0 (data_rows c lines)) as [p|] eqn:F; [|contradiction Hn; reflexivity].
      assert (first_warn (data_rows c lines) <> None) as Hf.
      { intros X. apply (proj2 (first_warn_nr_none 0 _)) in X. rewrite X in F. discriminate. }
      destruct (first_warn (data_rows c lines)) as [r|] eqn:G; [|contradiction Hf; reflexivity].
      unfold first_warn in G. apply List.find_some in G. exists r. exact G.
    - intros [r [Hin Hw]] X.
      destruct (first_warn_nr 0 (data_rows c lines)) as [p|] eqn:F; [discriminate|].
      apply (proj1 (first_warn_nr_none 0 _)) in F. unfold first_warn in F.
      pose proof (List.find_none _ _ F r Hin) as Y. unfold warns in Y. rewrite Hw in Y. discriminate.
  Qed.

  Corollary rfc_error_iff c lines :
    c_rfc c = true ->
    ((exists nr nl, records_of_lines split c lines = RErr nr nl) <->
     exists r, In r (data_rows c lines) /\ snd (split (fst r)) = true).
  Proof.
    intros R. pose proof (reader_warnings_exact c lines) as H. split.
    - intros [nr [nl E]]. rewrite E in H. destruct H as [_ F].
      assert (first_warn (data_rows c lines) <> None) as Hf.
      { intros X. apply (proj2 (first_warn_nr_none 0 _)) in X. rewrite X in F. discriminate. }
      destruct (first_warn (data_rows c lines)) as [r|] eqn:G; [|contradiction Hf; reflexivity].
      unfold first_warn in G. apply List.find_some in G. exists r. exact G.
    - intros [r [Hin Hw]]. destruct (records_of_lines split c lines) as [recs h w nl nr|nr nl]; [|exists nr, nl; reflexivity].
      rewrite R in H. destruct H as [_ [_ F]]. unfold first_warn in F.
      pose proof (List.find_none _ _ F r Hin) as Y. unfold warns in Y. rewrite Hw in Y. discriminate.
  Qed.
End Reader.

(* ------------------------------------------------------------------ writer flags *)

Definition row_delim_flag (fl : lang) (pol : policy) (dlm : str) (row : list cell) : bool :=
  match pol with
  | Monocolumn => false
  | _ => let fs := fst (normalize_fields dlm row) in delim_flag fl pol dlm fs (join_line_fl fl pol dlm fs)
  end.

Lemma write_row_flags_exact fl pol dlm hl st row st' : write_row fl pol dlm hl st row = (st', None) ->
  w_none st' = w_none st || existsb has_none row /\
  w_delim st' = w_delim st || row_delim_flag fl pol dlm row.
Proof.
  unfold write_row, row_delim_flag. intros H.
  destruct (match hl with Some n => negb (Nat.eqb (length row) n) | None => false end); [discriminate|].
  pose proof (normalize_fields_none dlm row) as Hn.
  destruct (normalize_fields dlm row) as [fs nn] eqn:N. cbn [snd fst] in *. subst nn.
  destruct pol; try (injection H as <-; cbn [w_none w_delim]; split; reflexivity).
  destruct fs as [|f [|g fs]]; try discriminate.
  injection H as <-. cbn [w_none w_delim]. split; [reflexivity|]. rewrite orb_false_r. reflexivity.
Qed.

Lemma write_rows_flags_exact fl pol dlm hl : forall rows st idx st', write_rows fl pol dlm hl st idx rows = (st', None) ->
  w_none st' = w_none st || existsb (existsb has_none) rows /\
  w_delim st' = w_delim st || existsb (row_delim_flag fl pol dlm) rows.
Proof.
  induction rows as [|r rows IH]; intros st idx st' H.
  - cbn [write_rows] in H. injection H as <-. cbn [existsb]. rewrite !orb_false_r. split; reflexivity.
  - cbn [write_rows] in H. destruct (write_row fl pol dlm hl st r) as [st1 [e|]] eqn:W; [discriminate|].
    destruct (write_row_flags_exact _ _ _ _ _ _ _ W) as [A1 A2]. destruct (IH _ _ _ H) as [B1 B2].
    rewrite B1, B2, A1, A2. cbn [existsb]. rewrite !orb_assoc. split; reflexivity.
Qed.

Theorem writer_flags_exact fl pol dlm header rows lines nf df :
  write_table fl pol dlm header rows = (lines, None, nf, df) ->
  let all := match header with Some h => h :: rows | None => rows end in
  nf = existsb (existsb has_none) all /\ df = existsb (row_delim_flag fl pol dlm) all.
Proof.
  unfold write_table. intros H.
  destruct header as [h|].
  - destruct (write_rows fl pol dlm (Some (length h)) {| w_lines := []; w_none := false; w_delim := false |} 0 (h :: rows)) as [st e] eqn:W.
    injection H as _ -> <- <-. destruct (write_rows_flags_exact _ _ _ _ _ _ _ _ W) as [A B]. cbn [w_none w_delim orb] in A, B. split; assumption.
  - destruct (write_rows fl pol dlm None {| w_lines := []; w_none := false; w_delim := false |} 0 rows) as [st e] eqn:W.
    injection H as _ -> <- <-. destruct (write_rows_flags_exact _ _ _ _ _ _ _ _ W) as [A B]. cbn [w_none w_delim orb] in A, B. split; assumption.
Qed.

Corollary none_warning_iff fl pol dlm header rows lines nf df :
  write_table fl pol dlm header rows = (lines, None, nf, df) ->
  (nf = true <-> exists row, In row (match header with Some h => h :: rows | None => rows end) /\ existsb has_none row = true).
Proof.
  intros H. destruct (writer_flags_exact _ _ _ _ _ _ _ _ H) as [-> _]. rewrite existsb_exists. tauto.
Qed.

(* the delimiter warning for a ONE-character delimiter and non-empty records: exactly "some field contains the delimiter" *)
Corollary delim_warning_iff_single pol (c : ch) header rows lines nf df :
  write_table LPy pol [c] header rows = (lines, None, nf, df) -> lossy_policy pol = true ->
  let all := match header with Some h => h :: rows | None => rows end in
  Forall (fun row => row <> []) all ->
  (df = true <-> exists row f, In row all /\ In f (fst (normalize_fields [c] row)) /\ has c f = true).
Proof.
  intros H Hp all Hne. destruct (writer_flags_exact _ _ _ _ _ _ _ _ H) as [_ ->]. fold all. rewrite existsb_exists. split.
  - intros [row [Hin Hf]]. exists row. unfold row_delim_flag in Hf.
    assert (fst (normalize_fields [c] row) <> []) as Hfs.
    { rewrite Forall_forall in Hne. specialize (Hne row Hin). unfold normalize_fields. cbn [fst]. destruct row; [contradiction|discriminate]. }
    destruct pol; try discriminate; cbn [delim_flag join_line_fl quote_fields] in Hf;
      destruct (delim_flag_py_sound_single c _ Hfs Hf) as [f [Hi Hc]]; exists f; rewrite contains_single in Hc; auto.
  - intros [row [f [Hin [Hi Hc]]]]. exists row. split; [exact Hin|]. unfold row_delim_flag.
    assert (exists f, In f (fst (normalize_fields [c] row)) /\ contains [c] f = true) as Hex.
    { exists f. split; [exact Hi|]. rewrite contains_single. exact Hc. }
    destruct pol; try discriminate; cbn [delim_flag join_line_fl quote_fields];
      apply delim_flag_py_complete; try discriminate; exact Hex.
Qed.
