(* ParserVars_Proofs.v — lemmas about ParserVars.v (C09) *)
From RBQL Require Import Base Parser ParserVars.
Local Open Scope N_scope.

(* ------------------------------------------------------------------ str_eqb *)
Lemma str_eqb_refl : forall a, str_eqb a a = true.
Proof. induction a as [|x a IH]; [reflexivity|]. cbn [str_eqb]. rewrite N.eqb_refl, IH. reflexivity. Qed.

Lemma str_eqb_eq : forall a b, str_eqb a b = true <-> a = b.
Proof.
  induction a as [|x a IH]; intros [|y b]; cbn [str_eqb]; split; intro H; try reflexivity; try discriminate.
  - apply andb_true_iff in H. destruct H as [H1 H2]. apply N.eqb_eq in H1. apply IH in H2. subst. reflexivity.
  - injection H as -> ->. rewrite N.eqb_refl. apply str_eqb_refl.
Qed.

Lemma str_eqb_neq : forall a b, str_eqb a b = false <-> a <> b.
Proof.
  intros a b. split.
  - intros H E. subst. rewrite str_eqb_refl in H. discriminate.
  - intro H. destruct (str_eqb a b) eqn:E; [|reflexivity]. apply str_eqb_eq in E. contradiction.
Qed.

Lemma existsb_str_eqb_In : forall m l, existsb (str_eqb m) l = true <-> In m l.
Proof.
  intros m l. rewrite existsb_exists. split.
  - intros [x [Hx E]]. apply str_eqb_eq in E. subst. exact Hx.
  - intro H. exists m. split; [exact H | apply str_eqb_refl].
Qed.

(* ------------------------------------------------------------------ escape = one pass *)
Definition esc_char (qc c : ch) : str :=
  if N.eqb c BSL then [BSL; BSL] else if N.eqb c LF then [BSL; 110] else if N.eqb c CR then [BSL; 114]
  else if N.eqb c TAB then [BSL; 116] else if N.eqb c qc then [BSL; qc] else [c].

Lemma replace_ch_app : forall c r a b, replace_ch c r (a ++ b) = replace_ch c r a ++ replace_ch c r b.
Proof. intros. unfold replace_ch. apply flat_map_app. Qed.

Lemma replace_ch_one : forall c r x, replace_ch c r [x] = if N.eqb x c then r else [x].
Proof. intros. unfold replace_ch. cbn [flat_map]. rewrite app_nil_r. reflexivity. Qed.

Lemma esc_one : forall qc c, qc = QT \/ qc = APOS ->
  replace_ch qc [BSL; qc] (replace_ch TAB [BSL; 116] (replace_ch CR [BSL; 114]
     (replace_ch LF [BSL; 110] (replace_ch BSL [BSL; BSL] [c])))) = esc_char qc c.
Proof.
  intros qc c Hq. unfold esc_char.
  destruct (N.eqb_spec c BSL) as [->|H1]; [destruct Hq as [->| ->]; reflexivity|].
  destruct (N.eqb_spec c LF) as [->|H2]; [destruct Hq as [->| ->]; reflexivity|].
  destruct (N.eqb_spec c CR) as [->|H3]; [destruct Hq as [->| ->]; reflexivity|].
  destruct (N.eqb_spec c TAB) as [->|H4]; [destruct Hq as [->| ->]; reflexivity|].
  rewrite replace_ch_one. rewrite (proj2 (N.eqb_neq c BSL) H1).
  rewrite replace_ch_one. rewrite (proj2 (N.eqb_neq c LF) H2).
  rewrite replace_ch_one. rewrite (proj2 (N.eqb_neq c CR) H3).
  rewrite replace_ch_one. rewrite (proj2 (N.eqb_neq c TAB) H4).
  rewrite replace_ch_one. reflexivity.
Qed.

Lemma escape_flat : forall qc name, qc = QT \/ qc = APOS ->
  escape_column_name qc name = flat_map (esc_char qc) name.
Proof.
  intros qc name Hq. induction name as [|c t IH]; [reflexivity|].
  unfold escape_column_name in *. change (c :: t) with ([c] ++ t).
  rewrite !replace_ch_app. rewrite IH. rewrite (esc_one qc c Hq). reflexivity.
Qed.

(* ------------------------------------------------------------------ round trip *)
Lemma consopt_map : forall c (o : option str) (t : str),
  consopt c (option_map (app t) o) = option_map (app (c :: t)) o.
Proof. intros c [x|] t; reflexivity. Qed.

Lemma lit_body_esc : forall qc name rest, qc = QT \/ qc = APOS -> ~ In 0 name ->
  lit_body qc (flat_map (esc_char qc) name ++ rest) = option_map (app name) (lit_body qc rest).
Proof.
  intros qc name rest Hq. induction name as [|c t IH]; intro Hn.
  - cbn [flat_map app]. destruct (lit_body qc rest); reflexivity.
  - assert (Hc : c <> 0) by (intro E; apply Hn; left; exact E).
    assert (Ht : ~ In 0 t) by (intro E; apply Hn; right; exact E).
    specialize (IH Ht). cbn [flat_map]. rewrite <- app_assoc. unfold esc_char at 1.
    destruct (N.eqb_spec c BSL) as [->|H1].
    { destruct Hq as [->| ->]; cbn [app lit_body]; cbn [N.eqb Pos.eqb BSL QT APOS LF CR orb simple_escape];
        rewrite IH; apply consopt_map. }
    destruct (N.eqb_spec c LF) as [->|H2].
    { destruct Hq as [->| ->]; cbn [app lit_body]; cbn [N.eqb Pos.eqb BSL QT APOS LF CR orb simple_escape];
        rewrite IH; apply consopt_map. }
    destruct (N.eqb_spec c CR) as [->|H3].
    { destruct Hq as [->| ->]; cbn [app lit_body]; cbn [N.eqb Pos.eqb BSL QT APOS LF CR orb simple_escape];
        rewrite IH; apply consopt_map. }
    destruct (N.eqb_spec c TAB) as [->|H4].
    { destruct Hq as [->| ->]; cbn [app lit_body]; cbn [N.eqb Pos.eqb BSL QT APOS LF CR TAB orb simple_escape];
        rewrite IH; apply consopt_map. }
    destruct (N.eqb_spec c qc) as [->|H5].
    { destruct Hq as [->| ->]; cbn [app lit_body]; cbn [N.eqb Pos.eqb BSL QT APOS LF CR orb simple_escape];
        rewrite IH; apply consopt_map. }
    cbn [app lit_body].
    rewrite (proj2 (N.eqb_neq c qc) H5), (proj2 (N.eqb_neq c LF) H2), (proj2 (N.eqb_neq c CR) H3),
            (proj2 (N.eqb_neq c 0) Hc), (proj2 (N.eqb_neq c BSL) H1).
    cbn [orb]. rewrite IH. apply consopt_map.
Qed.

Lemma escape_roundtrip : forall name qc, qc = QT \/ qc = APOS -> ~ In 0 name ->
  py_literal_value (qc :: escape_column_name qc name ++ [qc]) = Some name.
Proof.
  intros name qc Hq Hn. rewrite (escape_flat qc name Hq). unfold py_literal_value.
  assert (E : N.eqb qc QT || N.eqb qc APOS = true) by (destruct Hq as [->| ->]; reflexivity).
  rewrite E. rewrite (lit_body_esc qc name [qc] Hq Hn).
  cbn [lit_body]. rewrite N.eqb_refl. cbn [option_map]. rewrite app_nil_r. reflexivity.
Qed.

Lemma escape_injective : forall n1 n2 qc, qc = QT \/ qc = APOS -> ~ In 0 n1 -> ~ In 0 n2 ->
  escape_column_name qc n1 = escape_column_name qc n2 -> n1 = n2.
Proof.
  intros n1 n2 qc Hq H1 H2 E.
  pose proof (escape_roundtrip n1 qc Hq H1) as R1. pose proof (escape_roundtrip n2 qc Hq H2) as R2.
  rewrite E in R1. rewrite R1 in R2. injection R2 as ->. reflexivity.
Qed.

(* ------------------------------------------------------------------ header logic *)
Lemma effective_consistent : forall flag w, emit_first (effective flag w) = negb (has_header (effective flag w)).
Proof.
  intros flag [m|]; unfold effective, handle_query_modifier, h_init.
  - destruct (existsb (str_eqb m) M_NOHEADER); [reflexivity|].
    destruct (existsb (str_eqb m) M_HEADER); reflexivity.
  - reflexivity.
Qed.

Lemma numbered_nth : forall {R : Type} (l : list R) (a i : nat),
  nth_error (combine (seq a (length l)) l) i = option_map (fun x => ((a + i)%nat, x)) (nth_error l i).
Proof.
  intros R l. induction l as [|x l IH]; intros a i.
  - destruct i; reflexivity.
  - cbn [length seq combine]. destruct i as [|i].
    + cbn [nth_error option_map]. rewrite Nat.add_0_r. reflexivity.
    + cbn [nth_error]. rewrite IH. replace (S a + i)%nat with (a + S i)%nat by lia. reflexivity.
Qed.

Lemma header_never_data : forall {R : Type} (flag : bool) (w : option str) (all_records : list R),
  let st := effective flag w in
  (has_header st = true ->
     csv_records st all_records = tl all_records /\ csv_header st all_records = hd_error all_records) /\
  (has_header st = false ->
     csv_records st all_records = all_records /\ csv_header st all_records = None) /\
  (forall i r, nth_error (csv_records st all_records) i = Some r ->
               nth_error (numbered (csv_records st all_records)) i = Some (S i, r)).
Proof.
  intros R flag w all_records st. pose proof (effective_consistent flag w) as C. fold st in C.
  unfold csv_records, csv_header. split; [|split].
  - intro H. rewrite C, H. split; reflexivity.
  - intro H. rewrite C, H. split; reflexivity.
  - intros i r H. unfold numbered. rewrite numbered_nth. rewrite H. reflexivity.
Qed.

Lemma with_override : forall (flag : bool),
  has_header (effective flag None) = flag /\
  (forall m, In m M_HEADER -> has_header (effective flag (Some m)) = true) /\
  (forall m, In m M_NOHEADER -> has_header (effective flag (Some m)) = false) /\
  (forall m, ~ In m M_HEADER -> ~ In m M_NOHEADER -> has_header (effective flag (Some m)) = flag).
Proof.
  intro flag. split; [reflexivity|]. split; [|split].
  - intros m H. cbn in H. destruct H as [<-|[<-|[]]]; reflexivity.
  - intros m H. cbn in H. destruct H as [<-|[<-|[]]]; reflexivity.
  - intros m H1 H2. unfold effective, handle_query_modifier.
    destruct (existsb (str_eqb m) M_NOHEADER) eqn:E2; [apply existsb_str_eqb_In in E2; contradiction|].
    destruct (existsb (str_eqb m) M_HEADER) eqn:E1; [apply existsb_str_eqb_In in E1; contradiction|].
    reflexivity.
Qed.
