(* ParserVars_Proofs.v — lemmas about ParserVars.v (C09) *)
From RBQL Require Import Base Parser Parser_Proofs ParserVars.
Local Open Scope N_scope.

(* ------------------------------------------------------------------ str_eqb *)
Lemma str_eqb_refl : forall a, str_eqb a a = true.
Proof. induction a as [|x a IH]; [reflexivity|]. cbn [str_eqb]. rewrite N.eqb_refl, IH. reflexivity. Qed.

Lemma str_eqb_eq : forall a b, str_eqb a b = true <-> a = b.
Proof.
  induction a as [|x a IH]; intros [|y b]; cbn [str_eqb]; split; intro H; try reflexivity; try discriminate.
  - apply andb_true_iff in H. destruct H as [H1 H2]. apply N.eqb_eq in H1. apply IH in H2. subst. reflexivity.
  - injection H as -> ->. rewrite N.eqb_refl. apply str_eqb_refl.
Qed.

Lemma str_eqb_neq : forall a b, str_eqb a b = false <-> a <> b.
Proof.
  intros a b. split.
  - intros H E. subst. rewrite str_eqb_refl in H. discriminate.
  - intro H. destruct (str_eqb a b) eqn:E; [|reflexivity]. apply str_eqb_eq in E. contradiction.
Qed.

Lemma existsb_str_eqb_In : forall m l, existsb (str_eqb m) l = true <-> In m l.
Proof.
  intros m l. rewrite existsb_exists. split.
  - intros [x [Hx E]]. apply str_eqb_eq in E. subst. exact Hx.
  - intro H. exists m. split; [exact H | apply str_eqb_refl].
Qed.

(* ------------------------------------------------------------------ escape = one pass *)
Definition esc_char (qc c : ch) : str :=
  if N.eqb c BSL then [BSL; BSL] else if N.eqb c LF then [BSL; 110] else if N.eqb c CR then [BSL; 114]
  else if N.eqb c TAB then [BSL; 116] else if N.eqb c qc then [BSL; qc] else [c].

Lemma replace_ch_app : forall c r a b, replace_ch c r (a ++ b) = replace_ch c r a ++ replace_ch c r b.
Proof. intros. unfold replace_ch. apply flat_map_app. Qed.

Lemma replace_ch_one : forall c r x, replace_ch c r [x] = if N.eqb x c then r else [x].
Proof. intros. unfold replace_ch. cbn [flat_map]. rewrite app_nil_r. reflexivity. Qed.

Lemma esc_one : forall qc c, qc = QT \/ qc = APOS ->
  replace_ch qc [BSL; qc] (replace_ch TAB [BSL; 116] (replace_ch CR [BSL; 114]
     (replace_ch LF [BSL; 110] (replace_ch BSL [BSL; BSL] [c])))) = esc_char qc c.
Proof.
  intros qc c Hq. unfold esc_char.
  destruct (N.eqb_spec c BSL) as [->|H1]; [destruct Hq as [->| ->]; reflexivity|].
  destruct (N.eqb_spec c LF) as [->|H2]; [destruct Hq as [->| ->]; reflexivity|].
  destruct (N.eqb_spec c CR) as [->|H3]; [destruct Hq as [->| ->]; reflexivity|].
  destruct (N.eqb_spec c TAB) as [->|H4]; [destruct Hq as [->| ->]; reflexivity|].
  rewrite replace_ch_one. rewrite (proj2 (N.eqb_neq c BSL) H1).
  rewrite replace_ch_one. rewrite (proj2 (N.eqb_neq c LF) H2).
  rewrite replace_ch_one. rewrite (proj2 (N.eqb_neq c CR) H3).
  rewrite replace_ch_one. rewrite (proj2 (N.eqb_neq c TAB) H4).
  rewrite replace_ch_one. reflexivity.
Qed.

Lemma escape_flat : forall qc name, qc = QT \/ qc = APOS ->
  escape_column_name qc name = flat_map (esc_char qc) name.
Proof.
  intros qc name Hq. induction name as [|c t IH]; [reflexivity|].
  unfold escape_column_name in *. change (c :: t) with ([c] ++ t).
  rewrite !replace_ch_app. rewrite IH. rewrite (esc_one qc c Hq). reflexivity.
Qed.

(* ------------------------------------------------------------------ round trip *)
Lemma consopt_map : forall c (o : option str) (t : str),
  consopt c (option_map (app t) o) = option_map (app (c :: t)) o.
Proof. intros c [x|] t; reflexivity. Qed.

Lemma lit_body_esc : forall qc name rest, qc = QT \/ qc = APOS -> ~ In 0 name ->
  lit_body qc (flat_map (esc_char qc) name ++ rest) = option_map (app name) (lit_body qc rest).
Proof.
  intros qc name rest Hq. induction name as [|c t IH]; intro Hn.
  - cbn [flat_map app]. destruct (lit_body qc rest); reflexivity.
  - assert (Hc : c <> 0) by (intro E; apply Hn; left; exact E).
    assert (Ht : ~ In 0 t) by (intro E; apply Hn; right; exact E).
    specialize (IH Ht). cbn [flat_map]. rewrite <- app_assoc. unfold esc_char at 1.
    destruct (N.eqb_spec c BSL) as [->|H1].
    { destruct Hq as [->| ->]; cbn [app lit_body]; cbn [N.eqb Pos.eqb BSL QT APOS LF CR orb simple_escape];
        rewrite IH; apply consopt_map. }
    destruct (N.eqb_spec c LF) as [->|H2].
    { destruct Hq as [->| ->]; cbn [app lit_body]; cbn [N.eqb Pos.eqb BSL QT APOS LF CR orb simple_escape];
        rewrite IH; apply consopt_map. }
    destruct (N.eqb_spec c CR) as [->|H3].
    { destruct Hq as [->| ->]; cbn [app lit_body]; cbn [N.eqb Pos.eqb BSL QT APOS LF CR orb simple_escape];
        rewrite IH; apply consopt_map. }
    destruct (N.eqb_spec c TAB) as [->|H4].
    { destruct Hq as [->| ->]; cbn [app lit_body]; cbn [N.eqb Pos.eqb BSL QT APOS LF CR TAB orb simple_escape];
        rewrite IH; apply consopt_map. }
    destruct (N.eqb_spec c qc) as [->|H5].
    { destruct Hq as [->| ->]; cbn [app lit_body]; cbn [N.eqb Pos.eqb BSL QT APOS LF CR orb simple_escape];
        rewrite IH; apply consopt_map. }
    cbn [app lit_body].
    rewrite (proj2 (N.eqb_neq c qc) H5), (proj2 (N.eqb_neq c LF) H2), (proj2 (N.eqb_neq c CR) H3),
            (proj2 (N.eqb_neq c 0) Hc), (proj2 (N.eqb_neq c BSL) H1).
    cbn [orb]. rewrite IH. apply consopt_map.
Qed.

Lemma escape_roundtrip : forall name qc, qc = QT \/ qc = APOS -> ~ In 0 name ->
  py_literal_value (qc :: escape_column_name qc name ++ [qc]) = Some name.
Proof.
  intros name qc Hq Hn. rewrite (escape_flat qc name Hq). unfold py_literal_value.
  assert (E : N.eqb qc QT || N.eqb qc APOS = true) by (destruct Hq as [->| ->]; reflexivity).
  rewrite E. rewrite (lit_body_esc qc name [qc] Hq Hn).
  cbn [lit_body]. rewrite N.eqb_refl. cbn [option_map]. rewrite app_nil_r. reflexivity.
Qed.

Lemma escape_injective : forall n1 n2 qc, qc = QT \/ qc = APOS -> ~ In 0 n1 -> ~ In 0 n2 ->
  escape_column_name qc n1 = escape_column_name qc n2 -> n1 = n2.
Proof.
  intros n1 n2 qc Hq H1 H2 E.
  pose proof (escape_roundtrip n1 qc Hq H1) as R1. pose proof (escape_roundtrip n2 qc Hq H2) as R2.
  rewrite E in R1. rewrite R1 in R2. injection R2 as ->. reflexivity.
Qed.

(* ------------------------------------------------------------------ header logic *)
Lemma effective_consistent : forall flag w, emit_first (effective flag w) = negb (has_header (effective flag w)).
Proof.
  intros flag [m|]; unfold effective, handle_query_modifier, h_init.
  - destruct (existsb (str_eqb m) M_NOHEADER); [reflexivity|].
    destruct (existsb (str_eqb m) M_HEADER); reflexivity.
  - reflexivity.
Qed.

Lemma numbered_nth : forall {R : Type} (l : list R) (a i : nat),
  nth_error (combine (seq a (length l)) l) i = option_map (fun x => ((a + i)%nat, x)) (nth_error l i).
Proof.
  intros R l. induction l as [|x l IH]; intros a i.
  - destruct i; reflexivity.
  - cbn [length seq combine]. destruct i as [|i].
    + cbn [nth_error option_map]. rewrite Nat.add_0_r. reflexivity.
    + cbn [nth_error]. rewrite IH. replace (S a + i)%nat with (a + S i)%nat by lia. reflexivity.
Qed.

Lemma header_never_data : forall {R : Type} (flag : bool) (w : option str) (all_records : list R),
  let st := effective flag w in
  (has_header st = true ->
     csv_records st all_records = tl all_records /\ csv_header st all_records = hd_error all_records) /\
  (has_header st = false ->
     csv_records st all_records = all_records /\ csv_header st all_records = None) /\
  (forall i r, nth_error (csv_records st all_records) i = Some r ->
               nth_error (numbered (csv_records st all_records)) i = Some (S i, r)).
Proof.
  intros R flag w all_records st. pose proof (effective_consistent flag w) as C. fold st in C.
  unfold csv_records, csv_header. split; [|split].
  - intro H. rewrite C, H. split; reflexivity.
  - intro H. rewrite C, H. split; reflexivity.
  - intros i r H. unfold numbered. rewrite numbered_nth. rewrite H. reflexivity.
Qed.

Lemma with_override : forall (flag : bool),
  has_header (effective flag None) = flag /\
  (forall m, In m M_HEADER -> has_header (effective flag (Some m)) = true) /\
  (forall m, In m M_NOHEADER -> has_header (effective flag (Some m)) = false) /\
  (forall m, ~ In m M_HEADER -> ~ In m M_NOHEADER -> has_header (effective flag (Some m)) = flag).
Proof.
  intro flag. split; [reflexivity|]. split; [|split].
  - intros m H. cbn in H. destruct H as [<-|[<-|[]]]; reflexivity.
  - intros m H. cbn in H. destruct H as [<-|[<-|[]]]; reflexivity.
  - intros m H1 H2. unfold effective, handle_query_modifier.
    destruct (existsb (str_eqb m) M_NOHEADER) eqn:E2; [apply existsb_str_eqb_In in E2; contradiction|].
    destruct (existsb (str_eqb m) M_HEADER) eqn:E1; [apply existsb_str_eqb_In in E1; contradiction|].
    reflexivity.
Qed.

(* ------------------------------------------------------------------ contains *)
Lemma starts_with_spec : forall p s, starts_with p s = true <-> exists y, s = p ++ y.
Proof.
  induction p as [|c p IH]; intro s.
  - split; [intros _; exists s; reflexivity | reflexivity].
  - destruct s as [|d s]; cbn [starts_with].
    + split; [discriminate | intros [y H]; discriminate].
    + rewrite andb_true_iff, N.eqb_eq, IH. split.
      * intros [-> [y ->]]. exists y. reflexivity.
      * intros [y H]. cbn [app] in H. injection H as -> ->. split; [reflexivity | exists y; reflexivity].
Qed.

Lemma contains_spec : forall p s, contains p s = true <-> exists x y, s = x ++ p ++ y.
Proof.
  intros p s. unfold contains. split.
  - revert p. induction s as [|c s IH]; intros p H.
    + cbn [find] in H. destruct (starts_with p []) eqn:E; [|discriminate].
      apply starts_with_spec in E. destruct E as [y E]. exists [], y. exact E.
    + cbn [find] in H. destruct (starts_with p (c :: s)) eqn:E.
      * apply starts_with_spec in E. destruct E as [y E]. exists [], y. exact E.
      * destruct (find p s) eqn:F; [|discriminate].
        destruct (IH p) as [x [y E2]]; [rewrite F; reflexivity|]. exists (c :: x), y. rewrite E2. reflexivity.
  - intros [x [y ->]]. induction x as [|c x IH].
    + cbn [app]. assert (E : starts_with p (p ++ y) = true) by (apply starts_with_spec; exists y; reflexivity).
      destruct (p ++ y); cbn [find]; rewrite E; reflexivity.
    + cbn [app find]. destruct (starts_with p (c :: x ++ p ++ y)); [reflexivity|].
      destruct (find p (x ++ p ++ y)); [reflexivity | exact IH].
Qed.

Lemma contains_trans : forall a b c, contains a b = true -> contains b c = true -> contains a c = true.
Proof.
  intros a b c H1 H2. apply contains_spec in H1. apply contains_spec in H2.
  destruct H1 as [u [v ->]]. destruct H2 as [x [y ->]]. apply contains_spec.
  exists (x ++ u), (v ++ y). rewrite <- !app_assoc. reflexivity.
Qed.

(* ------------------------------------------------------------------ the prefilter never skips a needed variable *)
Lemma dict_class_esc : forall qc c, qc = QT \/ qc = APOS -> dict_class c = true -> esc_char qc c = [c].
Proof.
  intros qc c Hq H. unfold esc_char.
  destruct (N.eqb_spec c BSL) as [->|_]; [discriminate H|].
  destruct (N.eqb_spec c LF) as [->|_]; [discriminate H|].
  destruct (N.eqb_spec c CR) as [->|_]; [discriminate H|].
  destruct (N.eqb_spec c TAB) as [->|_]; [discriminate H|].
  destruct (N.eqb_spec c qc) as [->|_]; [destruct Hq as [->| ->]; discriminate H|]. reflexivity.
Qed.

Lemma esc_segment : forall qc seg, qc = QT \/ qc = APOS -> forallb dict_class seg = true -> flat_map (esc_char qc) seg = seg.
Proof.
  intros qc seg Hq. induction seg as [|c seg IH]; intro H; [reflexivity|]. cbn [forallb] in H. apply andb_true_iff in H.
  destruct H as [H1 H2]. cbn [flat_map]. rewrite (dict_class_esc qc c Hq H1), IH by exact H2. reflexivity.
Qed.

Lemma segments_sub : forall s cur seg, forallb dict_class cur = true -> In seg (segments s cur) ->
  forallb dict_class seg = true /\ exists pre post, rev cur ++ s = pre ++ seg ++ post.
Proof.
  induction s as [|c s IH]; intros cur seg Hc Hin.
  - cbn [segments] in Hin. destruct cur as [|x cur]; [contradiction|]. destruct Hin as [<-|[]].
    split; [rewrite forallb_rev; exact Hc|]. exists [], []. rewrite !app_nil_r. reflexivity.
  - cbn [segments] in Hin. destruct (dict_class c) eqn:Ec.
    + destruct (IH (c :: cur) seg) as [H1 [pre [post H2]]]; [cbn [forallb]; rewrite Ec, Hc; reflexivity | exact Hin |].
      split; [exact H1|]. exists pre, post. cbn [rev] in H2. rewrite <- app_assoc in H2. exact H2.
    + destruct cur as [|x cur].
      * destruct (IH [] seg eq_refl Hin) as [H1 [pre [post H2]]]. split; [exact H1|].
        exists (c :: pre), post. cbn [rev app] in *. rewrite H2. reflexivity.
      * destruct Hin as [<-|Hin].
        { split; [rewrite forallb_rev; exact Hc|]. exists [], (c :: s). reflexivity. }
        { destruct (IH [] seg eq_refl Hin) as [H1 [pre [post H2]]]. split; [exact H1|].
          exists (rev (x :: cur) ++ c :: pre), post. cbn [rev app] in H2. rewrite H2. rewrite <- !app_assoc. reflexivity. }
Qed.

Theorem prefilter_sound : forall query n qc, qc = QT \/ qc = APOS ->
  contains (escape_column_name qc n) query = true -> query_probably_has_dictionary_variable query n = true.
Proof.
  intros query n qc Hq H. unfold query_probably_has_dictionary_variable. apply forallb_forall. intros seg Hin.
  destruct (segments_sub n [] seg eq_refl Hin) as [Hd [pre [post E]]]. cbn [rev app] in E.
  apply contains_trans with (b := escape_column_name qc n); [|exact H].
  rewrite (escape_flat qc n Hq). rewrite E. rewrite !flat_map_app. rewrite (esc_segment qc seg Hq Hd).
  apply contains_spec. exists (flat_map (esc_char qc) pre), (flat_map (esc_char qc) post). reflexivity.
Qed.

(* ------------------------------------------------------------------ variable maps *)
Lemma map_get_set_same : forall k v m, map_get k (map_set k v m) = Some v.
Proof.
  intros k v m. induction m as [|[k' v'] m IH]; cbn [map_set map_get].
  - rewrite str_eqb_refl. reflexivity.
  - destruct (str_eqb k' k) eqn:E; cbn [map_get]; rewrite E; [reflexivity | exact IH].
Qed.

Lemma map_get_set_other : forall k k' v m, k' <> k -> map_get k (map_set k' v m) = map_get k m.
Proof.
  intros k k' v m H. induction m as [|[k2 v2] m IH]; cbn [map_set map_get].
  - rewrite (proj2 (str_eqb_neq k' k) H). reflexivity.
  - destruct (str_eqb k2 k') eqn:E; cbn [map_get].
    + apply str_eqb_eq in E. subst k2. rewrite (proj2 (str_eqb_neq k' k) H). reflexivity.
    + destruct (str_eqb k2 k); [reflexivity | exact IH].
Qed.

Definition nul_free (names : list str) : Prop := forall n, In n names -> ~ In 0 n.

Lemma dict_var_inj : forall p qc n1 n2, qc = QT \/ qc = APOS -> ~ In 0 n1 -> ~ In 0 n2 ->
  dict_var p qc n1 = dict_var p qc n2 -> n1 = n2.
Proof.
  intros p qc n1 n2 Hq H1 H2 E. unfold dict_var in E. injection E as E.
  apply app_inv_tail in E. exact (escape_injective n1 n2 qc Hq H1 H2 E).
Qed.

Lemma dict_var_quote : forall p n1 n2, dict_var p QT n1 <> dict_var p APOS n2.
Proof. intros p n1 n2 E. unfold dict_var in E. discriminate E. Qed.

Lemma dict_vars_untouched : forall q p r k m key,
  (forall n', In n' r -> dict_var p QT n' <> key /\ dict_var p APOS n' <> key) ->
  map_get key (dict_vars_from k q p r m) = map_get key m.
Proof.
  intros q p r. induction r as [|n0 r IH]; intros k m key H; [reflexivity|]. cbn [dict_vars_from].
  rewrite IH by (intros n' Hn; apply H; right; exact Hn).
  destruct (H n0 (or_introl eq_refl)) as [H1 H2].
  destruct (query_probably_has_dictionary_variable q n0); [|reflexivity].
  rewrite map_get_set_other by exact H2. apply map_get_set_other. exact H1.
Qed.

Lemma dict_vars_bind : forall q p names k m i n, NoDup names -> nul_free names ->
  nth_error names i = Some n -> query_probably_has_dictionary_variable q n = true ->
  map_get (dict_var p QT n) (dict_vars_from k q p names m) = Some (true, N.of_nat (k + i)) /\
  map_get (dict_var p APOS n) (dict_vars_from k q p names m) = Some (false, N.of_nat (k + i)).
Proof.
  intros q p names. induction names as [|n0 r IH]; intros k m i n Hd Hz Hi Hp; [destruct i; discriminate|].
  inversion Hd as [|? ? Hnotin Hd']; subst. cbn [dict_vars_from]. destruct i as [|i].
  - cbn [nth_error] in Hi. injection Hi as ->. rewrite Hp. rewrite Nat.add_0_r.
    assert (Hu : forall qc, qc = QT \/ qc = APOS -> forall n', In n' r -> dict_var p QT n' <> dict_var p qc n /\ dict_var p APOS n' <> dict_var p qc n).
    { intros qc Hq n' Hn'. assert (Hne : n' <> n) by (intro E; subst; contradiction).
      assert (Z1 : ~ In 0 n') by (apply Hz; right; exact Hn'). assert (Z2 : ~ In 0 n) by (apply Hz; left; reflexivity).
      destruct Hq as [->| ->]; split; intro E.
      - apply Hne. exact (dict_var_inj p QT n' n (or_introl eq_refl) Z1 Z2 E).
      - symmetry in E. exact (dict_var_quote p n n' E).
      - exact (dict_var_quote p n' n E).
      - apply Hne. exact (dict_var_inj p APOS n' n (or_intror eq_refl) Z1 Z2 E). }
    split.
    + rewrite dict_vars_untouched by (apply Hu; left; reflexivity).
      rewrite map_get_set_other by (intro E; symmetry in E; exact (dict_var_quote p n n E)). apply map_get_set_same.
    + rewrite dict_vars_untouched by (apply Hu; right; reflexivity). apply map_get_set_same.
  - cbn [nth_error] in Hi. replace (k + S i)%nat with (S k + i)%nat by lia.
    apply IH; [exact Hd' | intros x Hx; apply Hz; right; exact Hx | exact Hi | exact Hp].
Qed.

Lemma last_index_nodup : forall names k i n, NoDup names -> nth_error names i = Some n ->
  last_index_from k names n = Some (k + i)%nat.
Proof.
  induction names as [|n0 r IH]; intros k i n Hd Hi; [destruct i; discriminate|].
  inversion Hd as [|? ? Hnotin Hd']; subst. cbn [last_index_from]. destruct i as [|i].
  - cbn [nth_error] in Hi. injection Hi as ->.
    assert (E : last_index_from (S k) r n = None).
    { clear -Hnotin. revert k. induction r as [|x r IH]; intro k; [reflexivity|]. cbn [last_index_from].
      rewrite IH by (intro H; apply Hnotin; right; exact H).
      rewrite (proj2 (str_eqb_neq x n)); [reflexivity|]. intro E. apply Hnotin. left. exact E. }
    rewrite E. rewrite str_eqb_refl. rewrite Nat.add_0_r. reflexivity.
  - cbn [nth_error] in Hi. rewrite (IH (S k) i n Hd' Hi). f_equal. lia.
Qed.

Lemma last_index_some_in : forall names k x, In x names -> exists i, last_index_from k names x = Some i.
Proof.
  induction names as [|n0 r IH]; intros k x H; [contradiction|]. cbn [last_index_from].
  destruct (last_index_from (S k) r x) eqn:E; [eexists; reflexivity|].
  destruct H as [->|H]; [rewrite str_eqb_refl; eexists; reflexivity|].
  destruct (IH (S k) x H) as [i Hi]. rewrite Hi in E. discriminate.
Qed.

Lemma attr_vars_bind : forall p names ids m n i, (forall x, In x ids -> In x names) ->
  last_index_from 0 names n = Some i ->
  (In n ids \/ map_get (p :: DOT :: n) m = Some (true, N.of_nat i)) ->
  exists m', attr_vars p names ids m = VOk m' /\ map_get (p :: DOT :: n) m' = Some (true, N.of_nat i).
Proof.
  intros p names ids. induction ids as [|x ids IH]; intros m n i Hall Hl Hor.
  - cbn [attr_vars]. exists m. split; [reflexivity|]. destruct Hor as [[]|H]. exact H.
  - cbn [attr_vars]. destruct (last_index_some_in names 0 x (Hall x (or_introl eq_refl))) as [j Hj]. rewrite Hj.
    apply IH; [intros y Hy; apply Hall; right; exact Hy | exact Hl |].
    destruct (list_eq_dec N.eq_dec x n) as [->|Hne].
    + right. rewrite Hj in Hl. injection Hl as ->. apply map_get_set_same.
    + destruct Hor as [[E|H]|H]; [contradiction | left; exact H |].
      right. rewrite map_get_set_other; [exact H|]. intro E. injection E as E. contradiction.
Qed.

Lemma direct_vars_untouched : forall q r k m key, ~ In key r ->
  forall m', direct_vars_from k q r m = VOk m' -> map_get key m' = map_get key m.
Proof.
  intros q r. induction r as [|n0 r IH]; intros k m key H m' E.
  - cbn [direct_vars_from] in E. injection E as <-. reflexivity.
  - cbn [direct_vars_from] in E. destruct (direct_name_ok n0); [|discriminate].
    rewrite (IH (S k) _ key (fun Hi => H (or_intror Hi)) m' E).
    destruct (contains n0 q); [|reflexivity]. apply map_get_set_other. intro E2. apply H. left. exact E2.
Qed.

Lemma direct_vars_bind : forall q names k m i n, NoDup names -> Forall (fun x => direct_name_ok x = true) names ->
  nth_error names i = Some n -> contains n q = true ->
  exists m', direct_vars_from k q names m = VOk m' /\ map_get n m' = Some (true, N.of_nat (k + i)).
Proof.
  intros q names. induction names as [|n0 r IH]; intros k m i n Hd Hok Hi Hc; [destruct i; discriminate|].
  inversion Hd as [|? ? Hnotin Hd']; subst. inversion Hok as [|? ? Hok0 Hok']; subst.
  cbn [direct_vars_from]. rewrite Hok0. destruct i as [|i].
  - cbn [nth_error] in Hi. injection Hi as ->. rewrite Hc. rewrite Nat.add_0_r.
    assert (Hex : exists m', direct_vars_from (S k) q r (map_set n (true, N.of_nat k) m) = VOk m').
    { clear -Hok'. generalize (S k) (map_set n (true, N.of_nat k) m). induction r as [|x r IH]; intros k' m0; [eexists; reflexivity|].
      inversion Hok' as [|? ? H1 H2]; subst. cbn [direct_vars_from]. rewrite H1. apply IH. exact H2. }
    destruct Hex as [m' Hm']. exists m'. split; [exact Hm'|].
    rewrite (direct_vars_untouched q r (S k) _ n Hnotin m' Hm'). apply map_get_set_same.
  - cbn [nth_error] in Hi. replace (k + S i)%nat with (S k + i)%nat by lia. apply IH; assumption.
Qed.

(* ------------------------------------------------------------------ binding through get_variables_map *)
Lemma attr_key_not_dict : forall p qc n x, p :: DOT :: x <> dict_var p qc n.
Proof. intros p qc n x E. unfold dict_var in E. discriminate E. Qed.

Lemma attr_vars_untouched : forall p names ids m m' key, (forall x, key <> p :: DOT :: x) ->
  attr_vars p names ids m = VOk m' -> map_get key m' = map_get key m.
Proof.
  intros p names ids. induction ids as [|x ids IH]; intros m m' key H E.
  - cbn [attr_vars] in E. injection E as <-. reflexivity.
  - cbn [attr_vars] in E. destruct (last_index_from 0 names x); [|discriminate].
    rewrite (IH _ m' key H E). apply map_get_set_other. intro E2. apply (H x). symmetry. exact E2.
Qed.

Theorem binding : forall (src : source) (query : str) (p : ch) (names : list str) (i : nat) (n : str),
  NoDup names -> nul_free names -> nth_error names i = Some n ->
  (* no a.ident token of the (literal-free) query names a missing column: otherwise the code raises an error *)
  (forall x, In x (attr_idents query p) -> In x names) ->
  match src with
  | SrcTable false =>
      Forall (fun x => direct_name_ok x = true) names -> contains n query = true ->
      exists m, get_variables_map src query p (Some names) None = VOk m /\ map_get n m = Some (true, N.of_nat i)
  | _ =>
      exists m, get_variables_map src query p (Some names) None = VOk m /\
        (In n (attr_idents query p) -> map_get (p :: DOT :: n) m = Some (true, N.of_nat i)) /\
        (has_bracket_access query p = true -> query_probably_has_dictionary_variable query n = true ->
           map_get (dict_var p QT n) m = Some (true, N.of_nat i) /\ map_get (dict_var p APOS n) m = Some (false, N.of_nat i))
  end.
Proof.
  intros src query p names i n Hd Hz Hi Hall.
  pose proof (last_index_nodup names 0 i n Hd Hi) as Hl. cbn [Nat.add] in Hl.
  set (m0 := parse_array_variables query p (parse_basic_variables query p [])).
  destruct src as [[|]|].
  - (* list table, normalize_column_names: dictionary variables, then attribute variables *)
    unfold get_variables_map. fold m0. cbn [negb]. unfold parse_attribute_variables.
    destruct (in_dec (list_eq_dec N.eq_dec) n (attr_idents query p)) as [Hin|Hnin].
    + destruct (attr_vars_bind p names (attr_idents query p) (parse_dictionary_variables query p names m0) n i Hall Hl (or_introl Hin)) as [m' [E1 E2]].
      exists m'. split; [exact E1|]. split; [intros _; exact E2|]. intros Hb Hp.
      rewrite !(attr_vars_untouched p names _ _ m' _ (fun x E => attr_key_not_dict p _ n x (eq_sym E)) E1).
      unfold parse_dictionary_variables. rewrite Hb. exact (dict_vars_bind query p names 0 m0 i n Hd Hz Hi Hp).
    + assert (Hex : exists m', attr_vars p names (attr_idents query p) (parse_dictionary_variables query p names m0) = VOk m').
      { generalize (parse_dictionary_variables query p names m0). revert Hall. generalize (attr_idents query p).
        induction l as [|x l IH]; intros Hall mm; [eexists; reflexivity|]. cbn [attr_vars].
        destruct (last_index_some_in names 0 x (Hall x (or_introl eq_refl))) as [j ->]. apply IH. intros y Hy. apply Hall. right. exact Hy. }
      destruct Hex as [m' E1]. exists m'. split; [exact E1|]. split; [intro; contradiction|]. intros Hb Hp.
      rewrite !(attr_vars_untouched p names _ _ m' _ (fun x E => attr_key_not_dict p _ n x (eq_sym E)) E1).
      unfold parse_dictionary_variables. rewrite Hb. exact (dict_vars_bind query p names 0 m0 i n Hd Hz Hi Hp).
  - (* direct mode *)
    intros Hok Hc. unfold get_variables_map. fold m0. cbn [negb]. unfold map_variables_directly.
    exact (direct_vars_bind query names 0 m0 i n Hd Hok Hi Hc).
  - (* CSV iterator: attribute variables, then dictionary variables *)
    unfold get_variables_map. fold m0. unfold parse_attribute_variables.
    assert (Hex : exists m1, attr_vars p names (attr_idents query p) m0 = VOk m1 /\
                  (In n (attr_idents query p) -> map_get (p :: DOT :: n) m1 = Some (true, N.of_nat i))).
    { destruct (in_dec (list_eq_dec N.eq_dec) n (attr_idents query p)) as [Hin|Hnin].
      - destruct (attr_vars_bind p names (attr_idents query p) m0 n i Hall Hl (or_introl Hin)) as [m' [E1 E2]].
        exists m'. split; [exact E1 | intros _; exact E2].
      - assert (Hex : exists m', attr_vars p names (attr_idents query p) m0 = VOk m').
        { generalize m0. revert Hall. generalize (attr_idents query p).
          induction l as [|x l IH]; intros Hall mm; [eexists; reflexivity|]. cbn [attr_vars].
          destruct (last_index_some_in names 0 x (Hall x (or_introl eq_refl))) as [j ->]. apply IH. intros y Hy. apply Hall. right. exact Hy. }
        destruct Hex as [m' E1]. exists m'. split; [exact E1 | intro; contradiction]. }
    destruct Hex as [m1 [E1 E2]]. rewrite E1. eexists. split; [reflexivity|]. split.
    + intro Hin. unfold parse_dictionary_variables. destruct (has_bracket_access query p); [|exact (E2 Hin)].
      rewrite dict_vars_untouched; [exact (E2 Hin)|]. intros n' _. split; intro E; exact (attr_key_not_dict p _ n' n (eq_sym E)).
    + intros Hb Hp. unfold parse_dictionary_variables. rewrite Hb. exact (dict_vars_bind query p names 0 m1 i n Hd Hz Hi Hp).
Qed.

(* ------------------------------------------------------------------ non-vacuity *)
From Coq Require String.
Import String.StringSyntax.

Definition ex_names : list str := [$"x y"; $"name"; [113; QT; BSL; 114]].
Definition ex_query : str := $"select a.name, a[""x y""], a['q""\\r'] where a1 != 'a.zz'".

Example binding_example :
  NoDup ex_names /\ nul_free ex_names /\
  (forall x, In x (attr_idents ex_query 97) -> In x ex_names) /\
  In ($"name") (attr_idents ex_query 97) /\
  has_bracket_access ex_query 97 = true /\
  query_probably_has_dictionary_variable ex_query ($"x y") = true /\
  contains (escape_column_name APOS [113; QT; BSL; 114]) ex_query = true /\
  exists m, get_variables_map (SrcTable true) ex_query 97 (Some ex_names) None = VOk m /\
            map_get ($"a.name") m = Some (true, 1) /\
            map_get ($"a[""x y""]") m = Some (true, 0) /\
            map_get ($"a['q""\\r']") m = Some (false, 2) /\
            eval_bracket_access 97 m ($"'q""\\r'") = Some 2.
Proof.
  split; [|split; [|split; [|split; [|split; [|split; [|split]]]]]].
  - repeat constructor; cbn; intuition discriminate.
  - intros n H. cbn in H. destruct H as [<-|[<-|[<-|[]]]]; cbn; intuition discriminate.
  - vm_compute. intros x [<-|[]]. right. left. reflexivity.
  - vm_compute. left. reflexivity.
  - vm_compute. reflexivity.
  - vm_compute. reflexivity.
  - vm_compute. reflexivity.
  - eexists. split; [vm_compute; reflexivity|]. vm_compute. repeat split.
Qed.
