(* Pipe_Proofs.v — EPIPE at any stream write: write() returns False, broken_pipe is set, nothing follows (C15) *)
From RBQL Require Import Base Pipe.

Lemma accepted_cons st o : accepted {| p_ops := o :: p_ops st; p_n := S (p_n st); p_broken := p_broken st |}
  = accepted st ++ match o with SWrite t true => [t] | _ => [] end.
Proof. unfold accepted. cbn [p_ops rev]. rewrite flat_map_app. cbn. rewrite app_nil_r. reflexivity. Qed.

(* after the pipe has broken, the writer performs no stream operation at all: neither in write's caller protocol
   (the engine stops at the first False) nor in finish *)
Theorem epipe_finish_noop s sep close st line :
  snd (csv_write s sep st line) = false ->
  p_broken (fst (csv_write s sep st line)) = true
  /\ csv_finish close (fst (csv_write s sep st line)) = fst (csv_write s sep st line).
Proof.
  unfold csv_write, stream_write. destruct (s (p_n st)); cbn.
  - destruct (s (S (p_n st))); cbn; [discriminate|]. intros _. split; reflexivity.
  - intros _. split; reflexivity.
Qed.

(* write() returns False exactly when one of its (at most two) stream writes is refused *)
Theorem csv_write_false_iff s sep st line :
  snd (csv_write s sep st line) = false <-> (s (p_n st) = false \/ s (S (p_n st)) = false).
Proof.
  unfold csv_write, stream_write. destruct (s (p_n st)) eqn:E1; cbn.
  - destruct (s (S (p_n st))) eqn:E2; cbn; split; intros H; auto; try discriminate. destruct H; discriminate.
  - split; auto.
Qed.

(* feeding lines until the first refusal, with a stream that breaks at its k-th write: the stream has accepted
   exactly the first k pieces of line1, sep, line2, sep, ...; no operation follows the refused write *)
Fixpoint pieces (sep : str) (lines : list str) : list str :=
  match lines with [] => [] | l :: t => l :: sep :: pieces sep t end.

Lemma csv_write_both sep k st line : S (p_n st) < k ->
  csv_write (breaks_at k) sep st line =
  ({| p_ops := SWrite sep true :: SWrite line true :: p_ops st; p_n := S (S (p_n st)); p_broken := p_broken st |}, true).
Proof.
  intros H. unfold csv_write, stream_write, breaks_at. cbn [p_n].
  assert (E1 : Nat.ltb (p_n st) k = true) by (apply Nat.ltb_lt; lia).
  assert (E2 : Nat.ltb (S (p_n st)) k = true) by (apply Nat.ltb_lt; lia).
  rewrite E1. cbn [p_n]. rewrite E2. reflexivity.
Qed.

Lemma csv_write_second sep k st line : p_n st < k -> k <= S (p_n st) ->
  csv_write (breaks_at k) sep st line =
  ({| p_ops := SWrite sep false :: SWrite line true :: p_ops st; p_n := S (S (p_n st)); p_broken := true |}, false).
Proof.
  intros H1 H2. unfold csv_write, stream_write, breaks_at. cbn [p_n].
  assert (E1 : Nat.ltb (p_n st) k = true) by (apply Nat.ltb_lt; lia).
  assert (E2 : Nat.ltb (S (p_n st)) k = false) by (apply Nat.ltb_ge; lia).
  rewrite E1. cbn [p_n]. rewrite E2. reflexivity.
Qed.

Lemma csv_write_first sep k st line : k <= p_n st ->
  csv_write (breaks_at k) sep st line =
  ({| p_ops := SWrite line false :: p_ops st; p_n := S (p_n st); p_broken := true |}, false).
Proof.
  intros H. unfold csv_write, stream_write, breaks_at. cbn [p_n].
  assert (E1 : Nat.ltb (p_n st) k = false) by (apply Nat.ltb_ge; lia).
  rewrite E1. reflexivity.
Qed.

Lemma csv_feed_breaks sep : forall lines st k,
  p_broken st = false ->
  let st' := csv_feed (breaks_at k) sep st lines in
  accepted st' = accepted st ++ firstn (k - p_n st) (pieces sep lines)
  /\ (k - p_n st < length (pieces sep lines) -> p_broken st' = true /\ p_n st' = S (Nat.max k (p_n st)) )
  /\ (length (pieces sep lines) <= k - p_n st -> p_broken st' = false /\ p_n st' = p_n st + length (pieces sep lines)).
Proof.
  induction lines as [|l t IH]; intros st k Hb; cbn zeta.
  - cbn. rewrite firstn_nil, app_nil_r. split; [reflexivity|]. split; [intros H; lia | intros _; split; [assumption | lia]].
  - cbn [csv_feed pieces]. destruct (Nat.lt_ge_cases (S (p_n st)) k) as [C|C]; [|destruct (Nat.lt_ge_cases (p_n st) k) as [C2|C2]].
    + rewrite (csv_write_both sep k st l C).
      set (st2 := {| p_ops := SWrite sep true :: SWrite l true :: p_ops st; p_n := S (S (p_n st)); p_broken := p_broken st |}).
      destruct (IH st2 k Hb) as [I1 [I2 I3]]. cbn zeta in *.
      change (p_n st2) with (S (S (p_n st))) in *.
      replace (k - p_n st) with (S (S (k - S (S (p_n st))))) by lia. cbn [firstn length].
      split; [|split].
      * rewrite I1. unfold st2, accepted. cbn [p_ops rev]. rewrite !flat_map_app. cbn. rewrite <- !app_assoc. reflexivity.
      * intros H. destruct I2 as [J1 J2]; [lia|]. split; [assumption|]. rewrite J2. lia.
      * intros H. destruct I3 as [J1 J2]; [lia|]. split; [assumption|]. rewrite J2. lia.
    + rewrite (csv_write_second sep k st l C2 C). cbn [p_broken p_n].
      replace (k - p_n st) with 1 by lia. cbn [firstn length].
      split; [|split].
      * unfold accepted. cbn [p_ops rev]. rewrite !flat_map_app. cbn. rewrite app_nil_r. reflexivity.
      * intros _. split; [reflexivity | lia].
      * intros H. lia.
    + rewrite (csv_write_first sep k st l C2). cbn [p_broken p_n]. replace (k - p_n st) with 0 by lia. cbn [firstn length].
      split; [|split].
      * unfold accepted. cbn [p_ops rev]. rewrite flat_map_app. cbn. rewrite !app_nil_r. reflexivity.
      * intros _. split; [reflexivity | lia].
      * intros H. lia.
Qed.

Theorem epipe_prefix sep lines k close :
  let st' := csv_finish close (csv_feed (breaks_at k) sep pw_init lines) in
  accepted st' = firstn k (pieces sep lines)
  /\ (k < length (pieces sep lines) ->
        (* the pipe broke: nothing after the refused write - no further write, no flush, no close *)
        p_ops st' = p_ops (csv_feed (breaks_at k) sep pw_init lines) /\ p_n st' = S k).
Proof.
  cbn zeta. destruct (csv_feed_breaks sep lines pw_init k eq_refl) as [H1 [H2 H3]]. cbn zeta in *.
  change (p_n pw_init) with 0 in *. rewrite Nat.sub_0_r in *. split.
  - unfold csv_finish. destruct (p_broken (csv_feed (breaks_at k) sep pw_init lines)) eqn:E.
    + rewrite H1. reflexivity.
    + unfold accepted in *. cbn [p_ops rev]. rewrite flat_map_app, H1. cbn. destruct close; cbn; rewrite app_nil_r; reflexivity.
  - intros H. destruct (H2 H) as [J1 J2]. unfold csv_finish. rewrite J1. split; [reflexivity|]. rewrite J2. lia.
Qed.
