(* CsvIxJs.v — the INDEX-style hand model of rbql-js/csv_utils.js (extract_next_field, split_quoted_str,
   split_whitespace_separated_str, smart_split, quote_field, rfc_quote_field), written with the recursion structure and the
   data representation of the JavaScript source: src.substring(cidx) handed to an anchored pattern, match_obj[0].length,
   indexOf / startsWith with a position, result.push, the exec loop of a global pattern as a fold over its matches, the
   counting for-loop as while_fuel with fuel S (length result), arrays [fields, warning] as pairs.
   Its text is what harness/translate_csv.py prints for the reviewed source (python3 harness/translate_csv.py --print jsix_ js);
   it was read against csv_utils.js line by line and is committed, so that the per-run obligations
       gen_csv_js_<name>_eq : forall args, gen_js_<name> args = jsix_<name> args
   are closed by reflexivity while the source keeps its shape.  CsvIxJs_Proofs.v proves (once) that these functions equal
   the model Csv.v (hence the Python index model CsvIx.v).  Strings are sequences of UTF-16 code units on this side.
   Primitives: PyStr.v, JsStr.v.  NO proofs in this file. *)
From RBQL Require Import Base Csv PyStr JsStr.

Definition jsix_extract_next_field (src : str) (dlm : str) (preserve_quotes_and_whitespaces : bool) (allow_external_whitespaces : bool) (cidx : Z) (result : list str) :=
  let src_cur := (js_substring src cidx None) in
  let rgx := (if allow_external_whitespaces then RxFieldExt else RxField) in
  let match_obj := (re_match rgx src_cur 0%Z) in
  match match_obj with
  | Some match_obj =>
    let match_end := (zlen (m_group0 match_obj)) in
    if (((cidx + match_end)%Z =? (zlen src))%Z || (js_startswith src dlm (cidx + match_end)%Z)) then
      let result :=
        if preserve_quotes_and_whitespaces then
          (result ++ [(m_group0 match_obj)])
        else
          (result ++ [(py_replace (m_group1 match_obj) [34%N; 34%N] [34%N])]) in
      (result, (((cidx + match_end)%Z + (zlen dlm))%Z, false))
    else
      let uidx := (js_indexof src dlm cidx) in
      let uidx :=
        if (uidx =? (-1)%Z)%Z then
          (zlen src)
        else
          uidx in
      let field := (js_substring src cidx (Some uidx)) in
      let result := (result ++ [field]) in
      (result, ((uidx + (zlen dlm))%Z, true))
  | None =>
    let uidx := (js_indexof src dlm cidx) in
    let uidx :=
      if (uidx =? (-1)%Z)%Z then
        (zlen src)
      else
        uidx in
    let field := (js_substring src cidx (Some uidx)) in
    let warning := (py_contains field [34%N]) in
    let result := (result ++ [field]) in
    (result, ((uidx + (zlen dlm))%Z, warning))
  end.

Definition jsix_split_quoted_str (src : str) (dlm : str) (preserve_quotes_and_whitespaces : bool) :=
  if (negb (py_contains src [34%N])) then
    (Some ((py_split src dlm), false))
  else
    let result := [] in
    let cidx := 0%Z in
    let allow_external_whitespaces := (negb (str_eqb dlm [32%N])) in
    match while_fuel (S (length src))
      (fun '(cidx, result, warning) => (cidx <? (zlen src))%Z)
      (fun '(cidx, result, warning) =>
        let '(result, extraction_report) := jsix_extract_next_field src dlm preserve_quotes_and_whitespaces allow_external_whitespaces cidx result in
        let cidx := (fst extraction_report) in
        let warning := (warning || (snd extraction_report)) in
        (cidx, result, warning))
      (cidx, result, false) with
    | None => None
    | Some (cidx, result, warning) =>
      let result :=
        if (cidx =? (zlen src))%Z then
          (result ++ [(@nil ch)])
        else
          result in
      (Some (result, warning))
    end.

Definition jsix_split_whitespace_separated_str (src : str) (preserve_whitespaces : bool) :=
  let rgxp := (if preserve_whitespaces then RxWsPreserve else RxWs) in
  let result := [] in
  let result := fold_left (fun result match_obj =>
      (result ++ [match_obj]))
    (re_finditer_g0 rgxp src) result in
  if preserve_whitespaces then
    let i := 0%Z in
    match while_fuel (S (length result))
      (fun '(i, result) => (i <? ((zlen result) - 1%Z)%Z)%Z)
      (fun '(i, result) =>
        let result := (py_setitem result i (py_slice (py_getitem (@nil ch) result i) (Some 0%Z) (Some (-1)%Z))) in
        let i := (i + 1%Z)%Z in
        (i, result))
      (i, result) with
    | None => None
    | Some (i, result) =>
      (Some result)
    end
  else
    (Some result).

Definition jsix_smart_split (src : str) (dlm : str) (policy : str) (preserve_quotes_and_whitespaces : bool) :=
  if (str_eqb policy [115%N; 105%N; 109%N; 112%N; 108%N; 101%N]) then
    (Some ((py_split src dlm), false))
  else
    if (str_eqb policy [119%N; 104%N; 105%N; 116%N; 101%N; 115%N; 112%N; 97%N; 99%N; 101%N]) then
      match jsix_split_whitespace_separated_str src preserve_quotes_and_whitespaces with
      | None => None
      | Some call1__ =>
        (Some (call1__, false))
      end
    else
      if (str_eqb policy [109%N; 111%N; 110%N; 111%N; 99%N; 111%N; 108%N; 117%N; 109%N; 110%N]) then
        (Some ([src], false))
      else
        match jsix_split_quoted_str src dlm preserve_quotes_and_whitespaces with
        | None => None
        | Some ret__ =>
          (Some ret__)
        end.

Definition jsix_quote_field (src : str) (delim : str) :=
  if ((py_contains src delim) || (py_contains src [34%N])) then
    let escaped := (py_replace src [34%N] [34%N; 34%N]) in
    ([34%N] ++ escaped ++ [34%N])
  else
    src.

Definition jsix_rfc_quote_field (src : str) (delim : str) :=
  if ((((py_contains src delim) || (py_contains src [34%N])) || (py_contains src [10%N])) || (py_contains src [13%N])) then
    let escaped := (py_replace src [34%N] [34%N; 34%N]) in
    ([34%N] ++ escaped ++ [34%N])
  else
    src.
