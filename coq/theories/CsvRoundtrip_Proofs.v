(* CsvRoundtrip_Proofs.v — whitespace / simple policies against their specifications, and the line-level
   round trip  smart_split (join_line fs) = (fs, false)  for representable field lists (C10). *)
From RBQL Require Import Base Csv CsvSpec CsvStr_Proofs Csv_Proofs.

(* ================================================================ whitespace policy *)

Lemma ws_split_sp t : ws_split (SP :: t) = ws_split t.
Proof. reflexivity. Qed.

Lemma ws_split_single c : c <> SP -> ws_split [c] = [[c]].
Proof. intros H. cbn [ws_split]. rewrite (neqb_neq _ _ H). reflexivity. Qed.

Lemma ws_split_c_sp c t : c <> SP -> ws_split (c :: SP :: t) = [c] :: ws_split t.
Proof. intros H. cbn [ws_split]. rewrite (neqb_neq _ _ H). reflexivity. Qed.

Lemma ws_split_c_c c d t : c <> SP -> d <> SP ->
  ws_split (c :: d :: t) = match ws_split (d :: t) with w :: ws => (c :: w) :: ws | [] => [[c]] end.
Proof. intros H1 H2. cbn [ws_split]. rewrite (neqb_neq _ _ H1), (neqb_neq _ _ H2). reflexivity. Qed.

Definition sp_or_end (rest : str) : Prop := rest = [] \/ exists rest', rest = SP :: rest'.

Lemma ws_split_run f rest : f <> [] -> has SP f = false -> sp_or_end rest -> ws_split (f ++ rest) = f :: ws_split rest.
Proof.
  induction f as [|c f IH]; intros Hne Hs Hr; [congruence|].
  apply has_cons_false in Hs. destruct Hs as [Hc Hs]. destruct f as [|d f].
  - cbn [app]. destruct Hr as [->|[r' ->]]; [apply ws_split_single; exact Hc|]. rewrite (ws_split_c_sp _ _ Hc). reflexivity.
  - pose proof (has_cons_false _ _ _ Hs) as [Hd _]. cbn [app]. rewrite (ws_split_c_c _ _ _ Hc Hd).
    change (d :: f ++ rest) with ((d :: f) ++ rest). rewrite IH; [reflexivity|discriminate|exact Hs|exact Hr].
Qed.

Lemma ws_split_spaces sp rest : spaces sp -> ws_split (sp ++ rest) = ws_split rest.
Proof.
  induction sp as [|c sp IH]; intros Hs; [reflexivity|]. inversion Hs; subst. cbn [app]. rewrite ws_split_sp. apply IH. assumption.
Qed.

(* the dialect determines the result of the scanner ... *)
Lemma WsSplit_ws_split s fs : WsSplit s fs -> ws_split s = fs.
Proof.
  induction 1 as [sp Hs|sp f rest fs Hs Hne Hf Hr Hw IH].
  - rewrite <- (app_nil_r sp). rewrite (ws_split_spaces sp [] Hs). reflexivity.
  - rewrite (ws_split_spaces sp _ Hs). rewrite (ws_split_run f rest Hne Hf Hr). rewrite IH. reflexivity.
Qed.

Lemma take_nsp_spec s : forall a r, take_nsp s = (a, r) -> s = a ++ r /\ has SP a = false /\ sp_or_end r.
Proof.
  induction s as [|c s IH]; intros a r H; cbn [take_nsp] in H.
  - injection H as <- <-. split; [reflexivity|]. split; [reflexivity|left; reflexivity].
  - destruct (N.eqb c SP) eqn:E.
    + injection H as <- <-. apply N.eqb_eq in E. subst c. split; [reflexivity|]. split; [reflexivity|right; exists s; reflexivity].
    + destruct (take_nsp s) as [a0 r0] eqn:T. injection H as <- <-. destruct (IH _ _ eq_refl) as [-> [Ha Hr]].
      split; [reflexivity|]. split; [|exact Hr]. rewrite has_cons. rewrite N.eqb_sym, E. exact Ha.
Qed.

(* ... and the scanner's result is in the dialect *)
Lemma ws_split_WsSplit s : WsSplit s (ws_split s).
Proof.
  remember (length s) as n eqn:Hn. revert s Hn. induction n as [n IH] using lt_wf_ind. intros s Hn.
  destruct (skip_sp s) as [sp r] eqn:S. destruct (skip_sp_spec _ _ _ S) as [Es [Hsp Hr]].
  destruct r as [|c r'].
  - rewrite app_nil_r in Es. subst s. rewrite (WsSplit_ws_split sp [] (Ws_nil sp Hsp)). apply Ws_nil. exact Hsp.
  - destruct (take_nsp (c :: r')) as [f rest] eqn:T. destruct (take_nsp_spec _ _ _ T) as [Er [Hf Hrest]].
    assert (f <> []) as Hne.
    { cbn [take_nsp] in T. cbn in Hr. rewrite (neqb_neq _ _ Hr) in T. destruct (take_nsp r'). injection T as <- _. discriminate. }
    assert (WsSplit rest (ws_split rest)) as IHr.
    { apply (IH (length rest)); [|reflexivity]. subst n. rewrite Es, Er. rewrite !app_length. destruct f; [congruence|cbn; lia]. }
    rewrite Es, Er. rewrite (ws_split_spaces sp _ Hsp), (ws_split_run f rest Hne Hf Hrest).
    apply Ws_cons; assumption.
Qed.

Theorem ws_split_spec s fs : ws_split s = fs <-> WsSplit s fs.
Proof. split; [intros <-; apply ws_split_WsSplit|apply WsSplit_ws_split]. Qed.

(* round trip: non-empty space-free fields joined by one space *)
Lemma ws_roundtrip fs : forallb (fun f => nonnil f && negb (has SP f)) fs = true -> ws_split (join [SP] fs) = fs.
Proof.
  induction fs as [|f fs IH]; intros H; [reflexivity|].
  cbn [forallb] in H. apply andb_true_iff in H. destruct H as [Hf Hfs]. apply andb_true_iff in Hf. destruct Hf as [Hn Hs].
  apply negb_true_iff in Hs. assert (f <> []) as Hne by (destruct f; [discriminate|discriminate]).
  destruct fs as [|g fs].
  - cbn [join]. rewrite <- (app_nil_r f) at 1. rewrite (ws_split_run f [] Hne Hs (or_introl eq_refl)). reflexivity.
  - rewrite join_cons by discriminate. cbn [app]. rewrite (ws_split_run f _ Hne Hs) by (right; eexists; reflexivity).
    rewrite ws_split_sp. rewrite IH by exact Hfs. reflexivity.
Qed.

(* ================================================================ simple policy *)

Lemma no_overlap_find dlm f : no_overlap dlm f = true -> find dlm (f ++ dlm) = Some (length f).
Proof. unfold no_overlap. destruct (find dlm (f ++ dlm)) as [i|]; [|discriminate]. intros H. apply Nat.eqb_eq in H. subst i. reflexivity. Qed.

Lemma bare_ok_cons2 dlm q f g r : bare_ok dlm q (f :: g :: r) = (q f || no_overlap dlm f) && bare_ok dlm q (g :: r).
Proof. reflexivity. Qed.

Lemma simple_roundtrip dlm fs : dlm <> [] -> fs <> [] -> bare_ok dlm (fun _ => false) fs = true -> split dlm (join dlm fs) = fs.
Proof.
  intros Hd. induction fs as [|f fs IH]; intros Hne H; [congruence|]. destruct fs as [|g fs].
  - cbn [join]. cbn [bare_ok orb] in H. apply negb_true_iff in H. apply split_none. apply contains_false_none. exact H.
  - rewrite bare_ok_cons2 in H. cbn [orb] in H. apply andb_true_iff in H. destruct H as [H1 H2].
    rewrite join_cons by discriminate. rewrite (split_exact dlm f _ Hd (no_overlap_find _ _ H1)).
    rewrite IH; [reflexivity|discriminate|exact H2].
Qed.

(* ================================================================ quoted policies *)

Definition qrender (q : str -> bool) (f : str) : str := if q f then wrap (double f) else f.

Lemma wrap_double_qfield dlm f : QField dlm (wrap (double f)) f.
Proof.
  change (wrap (double f)) with ([] ++ QT :: double f ++ QT :: []).
  apply QField_intro; [constructor|constructor|intros _; split; reflexivity|apply double_qbody].
Qed.

Lemma extract_bare_more dlm pr f rest : good_quoted_dlm dlm = true -> has QT f = false ->
  find dlm (f ++ dlm) = Some (length f) ->
  extract_next_field dlm pr (ext_of dlm) (f ++ dlm ++ rest) = ((false, f), false, Some rest).
Proof.
  intros G Hf F. destruct (good_tail dlm rest G) as [T1 [T2 _]].
  unfold extract_next_field. cbv zeta. rewrite (qmatch_bare_none (ext_of dlm) f (dlm ++ rest) Hf T1 T2).
  rewrite (find_exact_extend dlm f rest F). rewrite firstn_app_exact, skipn_app_exact2, Hf. reflexivity.
Qed.

Lemma loop_roundtrip dlm q : good_quoted_dlm dlm = true -> (forall f, q f = false -> has QT f = false) ->
  forall fs, fs <> [] -> bare_ok dlm q fs = true ->
  forall fuel, (length (join dlm (map (qrender q) fs)) < fuel)%nat ->
  sq_loop fuel dlm false (ext_of dlm) (join dlm (map (qrender q) fs)) = (map (fun f => (q f, f)) fs, false).
Proof.
  intros G Hq. destruct (good_tail dlm [] G) as [_ [_ Hd]]. pose proof (dlm_len_pos dlm Hd) as Hdl.
  induction fs as [|f fs IH]; intros Hne H fuel Hl; [congruence|]. destruct fuel as [|fuel]; [lia|].
  destruct fs as [|g fs].
  - cbn [map join] in *. unfold qrender in *. destruct (q f) eqn:Qf.
    + rewrite (sq_loop_S _ _ _ _ _ (qfield_nonempty _ _ _ (wrap_double_qfield dlm f))).
      rewrite (extract_quoted_last dlm false _ f G (wrap_double_qfield dlm f)). reflexivity.
    + cbn [bare_ok orb] in H. rewrite Qf in H. cbn [orb] in H. apply negb_true_iff in H.
      destruct f as [|c f']; [reflexivity|].
      rewrite sq_loop_S by discriminate. rewrite (extract_noquote dlm false (ext_of dlm) _ (Hq _ Qf)).
      rewrite (contains_false_none _ _ H). reflexivity.
  - rewrite bare_ok_cons2 in H. apply andb_true_iff in H. destruct H as [H1 H2].
    cbn [map] in *. rewrite join_cons in * by discriminate.
    assert (qrender q f ++ dlm ++ join dlm (qrender q g :: map (qrender q) fs) <> []) as Hn2.
    { destruct (qrender q f); [destruct dlm; [congruence|discriminate]|discriminate]. }
    rewrite (sq_loop_S _ _ _ _ _ Hn2).
    assert (sq_loop fuel dlm false (ext_of dlm) (join dlm (qrender q g :: map (qrender q) fs)) =
            (map (fun f0 => (q f0, f0)) (g :: fs), false)) as IHr.
    { apply IH; [discriminate|exact H2|]. rewrite !app_length in Hl. lia. }
    unfold qrender at 1. unfold qrender at 1 in Hn2. destruct (q f) eqn:Qf.
    + rewrite (extract_quoted_more dlm false _ f _ G (wrap_double_qfield dlm f)). rewrite IHr. reflexivity.
    + cbn [orb] in H1. rewrite (extract_bare_more dlm false f _ G (Hq _ Qf) (no_overlap_find _ _ H1)). rewrite IHr. reflexivity.
Qed.

(* the writers' quoting functions are "wrap the doubled text iff the field gets quoted" *)
Lemma quote_field_py_render dlm f : quote_field_py dlm f = qrender (gets_quoted Quoted dlm) f.
Proof.
  unfold quote_field_py, qrender, gets_quoted. destruct (has QT f) eqn:Hq; [reflexivity|]. cbn [orb].
  destruct (contains dlm f); [rewrite (double_noquote f Hq)|]; reflexivity.
Qed.

Lemma rfc_quote_field_py_render dlm f : rfc_quote_field_py dlm f = qrender (gets_quoted QuotedRfc dlm) f.
Proof.
  unfold rfc_quote_field_py, qrender, gets_quoted, has_newline. destruct (has QT f) eqn:Hq; [reflexivity|]. cbn [orb].
  rewrite orb_assoc. destruct (contains dlm f || has LF f || has CR f); [rewrite (double_noquote f Hq)|]; reflexivity.
Qed.

Lemma quote_field_lang fl rfc dlm f : quote_field fl rfc dlm f = quote_field LPy rfc dlm f.
Proof. destruct fl, rfc; cbn [quote_field]; auto using quote_field_agree, rfc_quote_field_agree, eq_sym. Qed.

Lemma join_line_lang fl pol dlm fs : join_line_fl fl pol dlm fs = join_line_fl LPy pol dlm fs.
Proof.
  unfold join_line_fl, quote_fields. destruct pol; try reflexivity; f_equal; apply map_ext; intros f; apply quote_field_lang.
Qed.

Lemma gets_quoted_sound pol dlm f : (pol = Quoted \/ pol = QuotedRfc) -> gets_quoted pol dlm f = false -> has QT f = false.
Proof.
  intros [->| ->]; unfold gets_quoted; intros H.
  - apply orb_false_iff in H. apply H.
  - apply orb_false_iff in H. destruct H as [H _]. apply orb_false_iff in H. apply H.
Qed.

Lemma quoted_roundtrip fl pol dlm fs : (pol = Quoted \/ pol = QuotedRfc) -> good_quoted_dlm dlm = true ->
  fs <> [] -> bare_ok dlm (gets_quoted pol dlm) fs = true ->
  split_quoted_str dlm false (join_line_fl fl pol dlm fs) = (fs, false).
Proof.
  intros Hp G Hne H. destruct (good_tail dlm [] G) as [_ [_ Hd]].
  assert (join_line_fl fl pol dlm fs = join dlm (map (qrender (gets_quoted pol dlm)) fs)) as E.
  { destruct Hp as [->| ->]; unfold join_line_fl, quote_fields; f_equal; apply map_ext; intros f; rewrite quote_field_lang; cbn [quote_field].
    - apply quote_field_py_render.
    - apply rfc_quote_field_py_render. }
  rewrite E. unfold split_quoted_str. rewrite (split_quoted_tagged_general dlm false _ Hd).
  rewrite (loop_roundtrip dlm (gets_quoted pol dlm) G (fun f => gets_quoted_sound pol dlm f Hp) fs Hne H) by lia.
  rewrite map_map. cbn [snd]. rewrite map_id. reflexivity.
Qed.

(* ================================================================ C10_line_roundtrip *)

Lemma nonnil_ne {T} (l : list T) : nonnil l = true -> l <> [].
Proof. destruct l; [discriminate|discriminate]. Qed.

Theorem line_roundtrip fl pol dlm fs : good_dlm pol dlm = true -> line_ok pol dlm fs = true ->
  smart_split pol dlm false (join_line_fl fl pol dlm fs) = (fs, false).
Proof.
  intros G H. destruct pol; cbn [good_dlm line_ok] in G, H.
  - apply andb_true_iff in H. destruct H as [H1 H2]. cbn [smart_split join_line_fl quote_fields]. f_equal.
    apply simple_roundtrip; [destruct dlm; [discriminate|discriminate]|apply nonnil_ne; exact H1|exact H2].
  - apply andb_true_iff in H. destruct H as [H1 H2]. cbn [smart_split].
    apply quoted_roundtrip; [left; reflexivity|exact G|apply nonnil_ne; exact H1|exact H2].
  - apply andb_true_iff in H. destruct H as [H1 H2]. cbn [smart_split].
    apply quoted_roundtrip; [right; reflexivity|exact G|apply nonnil_ne; exact H1|exact H2].
  - apply dlm_is_space_iff in G. subst dlm. cbn [smart_split join_line_fl quote_fields split_whitespace_separated_str].
    f_equal. apply ws_roundtrip. exact H.
  - destruct fs as [|f [|g fs]]; try discriminate. reflexivity.
Qed.

Corollary representable_roundtrip fl pol dlm fs : good_dlm pol dlm = true -> representable pol dlm fs = true ->
  smart_split pol dlm false (join_line_fl fl pol dlm fs) = (fs, false).
Proof. intros G H. unfold representable in H. apply andb_true_iff in H. apply line_roundtrip; [exact G|apply H]. Qed.

(* ================================================================ C11_other_policies, as one statement *)

Theorem other_policies dlm pr line :
  (dlm <> [] ->
     smart_split Simple dlm pr line = (split dlm line, false) /\
     join dlm (split dlm line) = line /\ Forall (fun f => contains dlm f = false) (split dlm line) /\
     (forall fs, fs <> [] -> bare_ok dlm (fun _ => false) fs = true -> split dlm (join dlm fs) = fs)) /\
  (exists fs, smart_split Whitespace dlm false line = (fs, false) /\ WsSplit line fs /\ (forall fs', WsSplit line fs' -> fs' = fs)) /\
  smart_split Monocolumn dlm pr line = ([line], false).
Proof.
  split; [|split].
  - intros Hd. split; [reflexivity|]. split; [apply split_join; exact Hd|]. split; [apply split_fields_clean; exact Hd|].
    intros fs Hne H. apply simple_roundtrip; assumption.
  - exists (ws_split line). split; [reflexivity|]. split; [apply ws_split_WsSplit|].
    intros fs' H. symmetry. apply WsSplit_ws_split. exact H.
  - reflexivity.
Qed.
