(* HeaderJs.v - character-level model of the JavaScript derivation of the output header (rbql-js/rbql.js):
     unquote_string                                   (lines 109-120)
     column_info_from_text_span                       (lines 123-169)  = [info_js]
     parse_root_bracket_level_text_spans              (lines 81-106)   = [split_spans]
     adhoc_parse_select_expression_to_column_infos    (lines 172-183)  = [adhoc_infos]
     replace_star_vars_for_header_parsing             (lines 1324-1339) = [star_hdr]
     the header half of translate_select_expression (str_strip of the star-marked text, line 1377) and the call
     at line 1926                                                       = [infos_js]
     select_output_header                             (lines 1617-1672) = [select_output_header_js]
   The Python port reads the select list with [ast] and is modelled on the SHAPE of an item (Header.v, [info_of]).
   Each regular expression is a hand-written deterministic scanner with the same match (the comment above it quotes
   the regex and says why the scanner's choice is the only possible match).
   Conventions / limits:
   - a column index is an integer (Z): parseInt("0") - 1 = -1 is representable; parseInt is taken to be exact
     (true below 2^53; the real parseInt rounds longer digit strings to a double).
   - a header name is [option str]: None is JavaScript's [undefined] (what input_header[-1] evaluates to).
   - '$' is "end of text" (no m flag), '.' is "not a line terminator" (no s flag).
   No proofs in this file. *)
From RBQL Require Import Base Expr Parser Header.
From Coq Require String.
Import String.StringSyntax.
Local Open Scope N_scope.

Definition MARK : str := Eval vm_compute in $"__RBQL_INTERNAL_STAR".

(* QueryColumnInfo as the JS port builds it; null = [option jinfo] None *)
Inductive jinfo :=
| JStar (t : option tbl)
| JIdx (t : tbl) (z : Z)
| JName (s : str)
| JAlias (s : str).

Definition jinfo_of_cinfo (c : cinfo) : jinfo :=
  match c with
  | CStar t => JStar t
  | CIdx t i => JIdx t (Z.of_nat i)
  | CName s => JName s
  | CAlias s => JAlias s
  end.

(* ------------------------------------------------------------------ unquote_string *)
(* as repaired by fix 80cd609 (finding D24): s.replace(/\\([\\nrt'"])/g, f) - ONE pass over the text, leftmost non-overlapping matches of a
   backslash followed by one of  backslash n r t ' "  ; f maps n r t to LF CR TAB and every other escaped character to itself.
   (Before the fix: two sequential passes that undid only the quote character and the backslash - the names of columns with an
   escaped line break or tab came out with the backslash spelling.) *)
Definition unesc_char (d : ch) : option ch :=
  if N.eqb d BSL then Some BSL
  else if N.eqb d 110 then Some LF
  else if N.eqb d 114 then Some CR
  else if N.eqb d 116 then Some TAB
  else if N.eqb d APOS then Some APOS
  else if N.eqb d QT then Some QT
  else None.

Fixpoint unesc (s : str) : str :=
  match s with
  | c :: t =>
      match t with
      | d :: t' => if N.eqb c BSL then match unesc_char d with Some z => z :: unesc t' | None => c :: unesc t end
                   else c :: unesc t
      | [] => s
      end
  | [] => []
  end.

Definition inner (s : str) : str := removelast (tl s).          (* s.substring(1, s.length - 1) for |s| >= 2 *)

Definition unquote_string (s : str) : option str :=
  if Nat.ltb (length s) 2 then None
  else match s, last_opt s with
       | c :: _, Some e =>
           if (N.eqb c APOS || N.eqb c QT) && N.eqb e c then Some (unesc (inner s)) else None
       | _, _ => None
       end.

(* string_literals[id] where id is the TEXT of the digits: only a canonical numeric string is an array index
   ("007" < length is true numerically, but string_literals["007"] is undefined) *)
Definition canonical_digits (ds : str) : bool :=
  match ds with [c] => true | c :: _ => negb (N.eqb c 48) | [] => false end.
Definition lit_lookup (lits : list str) (ds : str) : option str :=
  if canonical_digits ds then nth_error lits (N.to_nat (N_of_digits ds)) else None.

(* ------------------------------------------------------------------ the five regexes *)
(* [_a-zA-Z] then any number of [_a-zA-Z0-9], anchored at both ends *)
Definition is_ident (s : str) : bool :=
  match s with c :: t => is_ident_start c && forallb is_word t | [] => false end.
(* [a-zA-Z] then any number of [a-zA-Z0-9_], anchored at both ends *)
Definition is_alias_name (s : str) : bool :=
  match s with c :: t => is_alpha c && forallb is_word t | [] => false end.
Definition tbl_of_ch (c : ch) : option tbl :=
  if N.eqb c 97 then Some TA else if N.eqb c 98 then Some TB else None.
Definition js_index (ds : str) : Z := (Z.of_N (N_of_digits ds) - 1)%Z.        (* parseInt(ds) - 1 *)
Definition not_sp (c : ch) : bool := negb (is_sp c).

(* /^(.X) (as|AS) +([a-zA-Z][a-zA-Z0-9_]X) X$/ (X = the asterisk) read from the END of the text: the alias holds no space and is followed
   by spaces only, so it is the last maximal run of non-spaces; the space run before it ends at a non-space (the s/S of the
   keyword), so it is the maximal run of spaces; then the keyword, one space, and any text without line terminators.
   Every group is therefore determined by the text: the match, if any, is unique. *)
Definition as_alias_match (t : str) : option str :=
  let r1 := drop_sp (rev t) in
  let (al_rev, r2) := span_by not_sp r1 in
  let (sps, r3) := span_by is_sp r2 in
  match sps, r3 with
  | _ :: _, c1 :: c2 :: c3 :: rest =>
      if ((N.eqb c1 115 && N.eqb c2 97) || (N.eqb c1 83 && N.eqb c2 65)) && is_sp c3
         && forallb (dot_ok LJs) rest && is_alias_name (rev al_rev)
      then Some (rev al_rev) else None
  | _, _ => None
  end.

(* column_info_from_text_span.  simple_var_match /^[_a-zA-Z][_a-zA-Z0-9]X$/, inside it /^([ab])([0-9]+)$/;
   attribute_match /^([ab])\.([_a-zA-Z][_a-zA-Z0-9]X)$/ (X = the asterisk); subscript_int_match /^([ab])\[([0-9]+)\]$/;
   subscript_str_match /^([ab])\[___RBQL_STRING_LITERAL([0-9]+)___\]$/ - the last three are mutually exclusive and
   exclusive with simple_var_match (second character '.' or '['), so the order of the tests between them is immaterial *)
Definition info_js (lits : list str) (span : str) : option jinfo :=
  let t := strip_ws LJs span in
  match as_alias_match t with
  | Some a => Some (JAlias a)
  | None =>
      if is_ident t then
        if str_eqb t MARK then Some (JStar None)
        else if starts_with PH_PREFIX t then None
        else match t with
             | c :: ds =>
                 match tbl_of_ch c with
                 | Some tb => if nonempty ds && forallb is_digit ds then Some (JIdx tb (js_index ds)) else Some (JName t)
                 | None => Some (JName t)
                 end
             | [] => None
             end
      else
        match t with
        | c :: d :: r =>
            match tbl_of_ch c with
            | Some tb =>
                if N.eqb d DOT then
                  if is_ident r then (if str_eqb r MARK then Some (JStar (Some tb)) else Some (JName r)) else None
                else if N.eqb d LBR then
                  let (ds, r2) := span_by is_digit r in
                  if nonempty ds && str_eqb r2 [RBR] then Some (JIdx tb (js_index ds))
                  else match strip_prefix PH_PREFIX r with
                       | Some r3 =>
                           let (ks, r4) := span_by is_digit r3 in
                           if nonempty ks && str_eqb r4 (PH_SUFFIX ++ [RBR]) then
                             match lit_lookup lits ks with
                             | Some q => option_map JName (unquote_string q)
                             | None => None
                             end
                           else None
                       | None => None
                       end
                else None
            | None => None
            end
        | _ => None
        end
  end.

(* ------------------------------------------------------------------ parse_root_bracket_level_text_spans *)
Definition LBRACE : ch := 123.
Definition RBRACE : ch := 125.
Definition is_open (c : ch) : bool := N.eqb c LBR || N.eqb c LBRACE || N.eqb c LPAR.
Definition is_close (c : ch) : bool := N.eqb c RBR || N.eqb c RBRACE || N.eqb c RPAR.
Definition br_match (o c : ch) : bool :=
  (N.eqb o LBR && N.eqb c RBR) || (N.eqb o LPAR && N.eqb c RPAR) || (N.eqb o LBRACE && N.eqb c RBRACE).

(* the stack after one character that is not a root-level comma; None = the "No matching opening bracket" throw *)
Definition br_step (c : ch) (stack : list ch) : option (list ch) :=
  if is_open c then Some (c :: stack)
  else if is_close c then
    match stack with o :: st => if br_match o c then Some st else None | [] => None end
  else Some stack.

(* the spans of the rest of the text; the head of the result is the span being read. None = RbqlParsingError *)
Fixpoint split_top (s : str) (stack : list ch) : option (list str) :=
  match s with
  | [] => match stack with [] => Some [[]] | _ => None end
  | c :: t =>
      if N.eqb c COMMA && negb (nonempty stack) then option_map (cons []) (split_top t [])
      else match br_step c stack with
           | Some st' => match split_top t st' with Some (h :: r) => Some ((c :: h) :: r) | _ => None end
           | None => None
           end
  end.
Definition split_spans (s : str) : option (list str) := option_map (map (strip_ws LJs)) (split_top s []).

Definition adhoc_infos (lits : list str) (sel : str) : option (list (option jinfo)) :=
  option_map (map (info_js lits)) (split_spans sel).

(* ------------------------------------------------------------------ replace_star_vars_for_header_parsing *)
(* /(?:(?<=^)|(?<=,)) X(STAR|a\.STAR|b\.STAR) X(?=$|,)/g (X = the asterisk, STAR = the escaped asterisk): a match STARTS at the beginning of the text or right after a comma
   (lookbehind), none of the alternatives starts with a space, so both space runs are maximal; [try_star] (Parser.star_body /
   star_tail) is that match at the current position, with its length.  Matches never overlap and the scan resumes where
   the match ended (at the comma of the lookahead, or at the end). *)
Definition star_marker (k : starkind) : str :=
  match k with StarAll => MARK | StarA => [97; DOT] ++ MARK | StarB => [98; DOT] ++ MARK end.
Definition try_star (s : str) : option (nat * starkind) := star_tail s (star_body s).

Fixpoint star_scan (s : str) (at_sep : bool) (skip : nat) : str :=
  match s with
  | [] => []
  | c :: t =>
      match skip with
      | S k => star_scan t false k
      | O =>
          match (if at_sep then try_star s else None) with
          | Some (n, k) => star_marker k ++ star_scan t false (n - 1)
          | None => c :: star_scan t (N.eqb c COMMA) 0
          end
      end
  end.
Definition star_hdr (s : str) : str := star_scan s true 0.

(* translate_select_expression's second component (without replace_star_count) handed to adhoc_parse...: line 1377 + 1926 *)
Definition infos_js (sel : str) (lits : list str) : option (list (option jinfo)) :=
  adhoc_infos lits (strip_sp (star_hdr sel)).

(* ------------------------------------------------------------------ select_output_header (JS), over jinfo *)
Definition jname := option str.         (* None = undefined *)

Definition js_idx_name (hdr : list str) (z : Z) (pos : nat) : jname :=
  if (z <? Z.of_nat (length hdr))%Z then (if (z <? 0)%Z then None else nth_error hdr (Z.to_nat z))
  else Some (colK (S pos)).

Fixpoint build_header_js (ih jh : list str) (infos : list (option jinfo)) (out : list jname) : list jname :=
  match infos with
  | [] => out
  | qi :: t =>
      let out' :=
        match qi with
        | None => out ++ [Some (colK (S (length out)))]
        | Some (JStar None) => out ++ map Some ih ++ map Some jh
        | Some (JStar (Some TA)) => out ++ map Some ih
        | Some (JStar (Some TB)) => out ++ map Some jh
        | Some (JName n) => out ++ [Some n]
        | Some (JAlias a) => out ++ [Some a]
        | Some (JIdx TA z) => out ++ [js_idx_name ih z (length out)]
        | Some (JIdx TB z) => out ++ [js_idx_name jh z (length out)]
        end in
      build_header_js ih jh t out'
  end.

Inductive jhres := JHNone | JHSome (h : list jname) | JHErr.
Definition is_star_jinfo (q : option jinfo) : bool := match q with Some (JStar _) => true | _ => false end.
Definition is_alias_jinfo (q : option jinfo) : bool := match q with Some (JAlias _) => true | _ => false end.

Definition select_output_header_js (ih jh : option (list str)) (infos : list (option jinfo)) : jhres :=
  let has_star := existsb is_star_jinfo infos in
  let has_alias := existsb is_alias_jinfo infos in
  match ih with
  | None =>
      if has_star && has_alias then JHErr
      else if negb has_alias then JHNone
      else JHSome (build_header_js [] [] infos [])
  | Some i => JHSome (build_header_js i (match jh with Some j => j | None => [] end) infos [])
  end.

(* ------------------------------------------------------------------ the same loop in Python, over integer indices:
   [column_index < len(header)] holds for -1 too and header[-1] is the LAST name (IndexError on an empty header) *)
Definition py_idx_name (hdr : list str) (z : Z) (pos : nat) : option str :=
  if (z <? Z.of_nat (length hdr))%Z then
    (if (z <? 0)%Z then (if (z + Z.of_nat (length hdr) <? 0)%Z then None else nth_error hdr (Z.to_nat (z + Z.of_nat (length hdr))))
     else nth_error hdr (Z.to_nat z))
  else Some (colK (S pos)).

(* None = IndexError *)
Fixpoint build_header_pyz (ih jh : list str) (infos : list (option jinfo)) (out : list str) : option (list str) :=
  match infos with
  | [] => Some out
  | qi :: t =>
      let one (x : option str) := match x with Some n => build_header_pyz ih jh t (out ++ [n]) | None => None end in
      match qi with
      | None => build_header_pyz ih jh t (out ++ [colK (S (length out))])
      | Some (JStar None) => build_header_pyz ih jh t (out ++ ih ++ jh)
      | Some (JStar (Some TA)) => build_header_pyz ih jh t (out ++ ih)
      | Some (JStar (Some TB)) => build_header_pyz ih jh t (out ++ jh)
      | Some (JName n) => build_header_pyz ih jh t (out ++ [n])
      | Some (JAlias a) => build_header_pyz ih jh t (out ++ [a])
      | Some (JIdx TA z) => one (py_idx_name ih z (length out))
      | Some (JIdx TB z) => one (py_idx_name jh z (length out))
      end
  end.
