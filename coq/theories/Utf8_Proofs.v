(* Utf8_Proofs.v — streaming UTF-8 decoding is independent of the chunking (C20_utf8_streaming). *)
From RBQL Require Import Base Utf8.

Lemma decode_chunk_app : forall a st b,
  decode_chunk st (a ++ b) =
  match decode_chunk st a with
  | None => None
  | Some (s1, st1) => match decode_chunk st1 b with
                      | None => None
                      | Some (s2, st2) => Some (s1 ++ s2, st2)
                      end
  end.
Proof.
  induction a as [|x a IH]; intros st b; cbn [app decode_chunk].
  - destruct (decode_chunk st b) as [[s2 st2]|]; reflexivity.
  - destruct (decode_byte st x) as [[o st1]|]; [|reflexivity].
    rewrite IH. destruct (decode_chunk st1 a) as [[s1 st2]|]; [|reflexivity].
    destruct (decode_chunk st2 b) as [[s2 st3]|]; [|reflexivity].
    destruct o; reflexivity.
Qed.

(* feeding the chunks one by one = decoding their concatenation; the outcome (text, or error) is the same *)
Lemma streaming_whole : forall chunks st,
  match decode_chunk st (concat chunks) with
  | Some (s, st') =>
      if decode_flush st'
      then exists l, decode_streaming_from st chunks = Some l /\ concat l = s /\ length l = length chunks
      else decode_streaming_from st chunks = None
  | None => decode_streaming_from st chunks = None
  end.
Proof.
  induction chunks as [|c r IH]; intros st; cbn [concat decode_streaming_from].
  - cbn [decode_chunk]. destruct (decode_flush st); [exists []; auto|reflexivity].
  - rewrite decode_chunk_app. destruct (decode_chunk st c) as [[s1 st1]|]; [|reflexivity].
    specialize (IH st1). destruct (decode_chunk st1 (concat r)) as [[s2 st2]|].
    + destruct (decode_flush st2).
      * destruct IH as (l & -> & El & Ll). exists (s1 :: l). cbn. rewrite El, Ll. auto.
      * rewrite IH. reflexivity.
    + rewrite IH. reflexivity.
Qed.

Theorem utf8_streaming bs :
  valid_utf8 bs -> forall parts, concat parts = bs ->
  exists l, decode_streaming parts = Some l /\ decode_whole bs = Some (concat l) /\ length l = length parts.
Proof.
  intros [s Hs] parts Hc. unfold decode_streaming. pose proof (streaming_whole parts d_init) as H.
  rewrite Hc in H. unfold decode_whole in *. destruct (decode_chunk d_init bs) as [[s' st']|]; [|discriminate].
  destruct (decode_flush st'); [|discriminate].
  destruct H as (l & E & El & Ll). exists l. rewrite El. auto.
Qed.

Theorem utf8_invalid_rejected bs :
  decode_whole bs = None -> forall parts, concat parts = bs -> decode_streaming parts = None.
Proof.
  intros Hs parts Hc. unfold decode_streaming. pose proof (streaming_whole parts d_init) as H.
  rewrite Hc in H. unfold decode_whole in *. destruct (decode_chunk d_init bs) as [[s' st']|]; [|exact H].
  destruct (decode_flush st'); [discriminate|exact H].
Qed.

(* whole = streaming on the one-chunk partition *)
Lemma decode_whole_streaming bs : decode_whole bs = option_map (@concat ch) (decode_streaming [bs]).
Proof.
  unfold decode_whole, decode_streaming. cbn. destruct (decode_chunk d_init bs) as [[s st]|]; [|reflexivity].
  destruct (decode_flush st); cbn; [rewrite app_nil_r|]; reflexivity.
Qed.


(* ------------------------------------------------------------------ inside a multi-byte character *)

(* what is known about the bits collected so far: enough to see that the character being assembled is not ASCII *)
Definition dwf (st : dstate) : Prop :=
  (128 <= d_lower st)%N /\
  match d_needed st with
  | 0%nat => True
  | 1%nat => (2 <= d_cp st)%N
  | 2%nat => (1 <= d_cp st)%N \/ (160 <= d_lower st)%N
  | 3%nat => (1 <= d_cp st)%N \/ (144 <= d_lower st)%N
  | _ => False
  end.

Lemma dwf_init : dwf d_init.
Proof. unfold dwf, d_init. cbn. split; [lia|exact I]. Qed.

Lemma utf8_len_cases b :
  (utf8_len b = 1%nat /\ (b <= 127)%N) \/ (utf8_len b = 2%nat /\ (194 <= b <= 223)%N) \/
  (utf8_len b = 3%nat /\ (224 <= b <= 239)%N) \/ (utf8_len b = 4%nat /\ (240 <= b <= 244)%N) \/ utf8_len b = 0%nat.
Proof.
  unfold utf8_len.
  destruct (b <=? 127)%N eqn:E1; [left; split; [reflexivity|apply N.leb_le; exact E1]|].
  destruct ((194 <=? b)%N && (b <=? 223)%N) eqn:E2.
  { right. left. apply andb_true_iff in E2. destruct E2 as [A B]. apply N.leb_le in A, B. auto. }
  destruct ((224 <=? b)%N && (b <=? 239)%N) eqn:E3.
  { right. right. left. apply andb_true_iff in E3. destruct E3 as [A B]. apply N.leb_le in A, B. auto. }
  destruct ((240 <=? b)%N && (b <=? 244)%N) eqn:E4.
  { right. right. right. left. apply andb_true_iff in E4. destruct E4 as [A B]. apply N.leb_le in A, B. auto. }
  right. right. right. right. reflexivity.
Qed.

Lemma decode_byte_dwf st b o st' :
  dwf st -> decode_byte st b = Some (o, st') ->
  dwf st' /\
  (d_needed st <> 0%nat -> match o with Some c => (128 <= c)%N | None => True end) /\
  (o = None -> d_needed st' <> 0%nat).
Proof.
  intros [Hl Hw] H. unfold decode_byte in H. destruct (d_needed st) as [|k] eqn:En.
  - destruct (utf8_len_cases b) as [[E A]|[[E A]|[[E A]|[[E A]|E]]]]; rewrite E in H; inversion H; subst; clear H.
    + split; [apply dwf_init|]. split; [congruence|discriminate].
    + split; [|split; [congruence|intros _; cbn; discriminate]]. unfold dwf. cbn. split; lia.
    + split; [|split; [congruence|intros _; cbn; discriminate]]. unfold dwf. cbn.
      destruct (N.eqb b 224) eqn:Eb; [apply N.eqb_eq in Eb; subst; split; [lia|right; lia]|apply N.eqb_neq in Eb; split; [lia|left; lia]].
    + split; [|split; [congruence|intros _; cbn; discriminate]]. unfold dwf. cbn.
      destruct (N.eqb b 240) eqn:Eb; [apply N.eqb_eq in Eb; subst; split; [lia|right; lia]|apply N.eqb_neq in Eb; split; [lia|left; lia]].
  - destruct ((d_lower st <=? b)%N && (b <=? d_upper st)%N) eqn:Eb; [|discriminate].
    apply andb_true_iff in Eb. destruct Eb as [A B]. apply N.leb_le in A, B.
    destruct k as [|[|[|k]]]; inversion H; subst; clear H.
    + split; [apply dwf_init|]. split; [intros _; lia|discriminate].
    + split; [|split; [auto|intros _; cbn; discriminate]]. unfold dwf. cbn. split; [lia|]. destruct Hw; lia.
    + split; [|split; [auto|intros _; cbn; discriminate]]. unfold dwf. cbn. split; [lia|]. left. destruct Hw; lia.
    + contradiction.
Qed.

Lemma decode_chunk_dwf : forall bs st s st', dwf st -> decode_chunk st bs = Some (s, st') -> dwf st'.
Proof.
  induction bs as [|b r IH]; intros st s st' Hw H; cbn in H; [inversion H; subst; exact Hw|].
  destruct (decode_byte st b) as [[o st1]|] eqn:Eb; [|discriminate].
  destruct (decode_chunk st1 r) as [[s2 st2]|] eqn:Er; [|discriminate]. inversion H; subst.
  destruct (decode_byte_dwf _ _ _ _ Hw Eb) as (W1 & _). exact (IH _ _ _ W1 Er).
Qed.

(* a decoder that is inside a character delivers a non-ASCII character first *)
Lemma decode_chunk_inside : forall bs st c s st',
  dwf st -> d_needed st <> 0%nat -> decode_chunk st bs = Some (c :: s, st') -> (128 <= c)%N.
Proof.
  induction bs as [|b r IH]; intros st c s st' Hw Hn H; cbn in H; [discriminate|].
  destruct (decode_byte st b) as [[o st1]|] eqn:Eb; [|discriminate].
  destruct (decode_chunk st1 r) as [[s2 st2]|] eqn:Er; [|discriminate].
  destruct (decode_byte_dwf _ _ _ _ Hw Eb) as (W1 & A & B).
  destruct o as [ch|].
  - inversion H; subst. exact (A Hn).
  - inversion H; subst. apply (IH st1 c s st' W1 (B eq_refl) Er).
Qed.

(* a non-empty chunk that decodes to nothing leaves the decoder inside a character *)
Lemma decode_chunk_silent : forall bs st st',
  dwf st -> bs <> [] -> decode_chunk st bs = Some ([], st') -> d_needed st' <> 0%nat.
Proof.
  induction bs as [|b r IH]; intros st st' Hw Hne H; [congruence|]. cbn in H.
  destruct (decode_byte st b) as [[o st1]|] eqn:Eb; [|discriminate].
  destruct (decode_chunk st1 r) as [[s2 st2]|] eqn:Er; [|discriminate].
  destruct (decode_byte_dwf _ _ _ _ Hw Eb) as (W1 & A & B).
  destruct o as [ch|]; [discriminate|]. inversion H; subst.
  destruct r as [|b2 r2].
  - cbn in Er. inversion Er; subst. apply B. reflexivity.
  - apply (IH st1 st' W1 ltac:(discriminate) Er).
Qed.

(* ------------------------------------------------------------------ sanity of the state machine against the encoder (boundary code points) *)

Definition boundary_points : str := [0; 10; 127; 128; 2047; 2048; 55295; 57344; 65279; 65535; 65536; 128512; 1114111]%N.

Example utf8_roundtrip_boundaries :
  decode_whole (utf8_encode boundary_points) = Some boundary_points /\
  decode_seq (S (length (utf8_encode boundary_points))) (utf8_encode boundary_points) = Some boundary_points /\
  forallb is_scalar boundary_points = true.
Proof. repeat split; vm_compute; reflexivity. Qed.

(* overlong forms, surrogates, code points above U+10FFFF, stray continuation bytes and truncated sequences are rejected *)
Example utf8_rejects :
  map decode_whole [[192; 175]; [224; 128; 175]; [240; 128; 128; 175]; [237; 160; 128]; [244; 144; 128; 128]; [245; 128; 128; 128];
                    [128]; [195]; [226; 130]; [240; 159; 152]; [195; 40]]%N = repeat None 11.
Proof. vm_compute. reflexivity. Qed.
