(* Utf8_Proofs.v — streaming UTF-8 decoding is independent of the chunking (C20_utf8_streaming). *)
From RBQL Require Import Base Utf8.

Lemma decode_chunk_app : forall a st b,
  decode_chunk st (a ++ b) =
  match decode_chunk st a with
  | None => None
  | Some (s1, st1) => match decode_chunk st1 b with
                      | None => None
                      | Some (s2, st2) => Some (s1 ++ s2, st2)
                      end
  end.
Proof.
  induction a as [|x a IH]; intros st b; cbn [app decode_chunk].
  - destruct (decode_chunk st b) as [[s2 st2]|]; reflexivity.
  - destruct (decode_byte st x) as [[o st1]|]; [|reflexivity].
    rewrite IH. destruct (decode_chunk st1 a) as [[s1 st2]|]; [|reflexivity].
    destruct (decode_chunk st2 b) as [[s2 st3]|]; [|reflexivity].
    destruct o; reflexivity.
Qed.

(* feeding the chunks one by one = decoding their concatenation; the outcome (text, or error) is the same *)
Lemma streaming_whole : forall chunks st,
  match decode_chunk st (concat chunks) with
  | Some (s, st') =>
      if decode_flush st'
      then exists l, decode_streaming_from st chunks = Some l /\ concat l = s /\ length l = length chunks
      else decode_streaming_from st chunks = None
  | None => decode_streaming_from st chunks = None
  end.
Proof.
  induction chunks as [|c r IH]; intros st; cbn [concat decode_streaming_from].
  - cbn [decode_chunk]. destruct (decode_flush st); [exists []; auto|reflexivity].
  - rewrite decode_chunk_app. destruct (decode_chunk st c) as [[s1 st1]|]; [|reflexivity].
    specialize (IH st1). destruct (decode_chunk st1 (concat r)) as [[s2 st2]|].
    + destruct (decode_flush st2).
      * destruct IH as (l & -> & El & Ll). exists (s1 :: l). cbn. rewrite El, Ll. auto.
      * rewrite IH. reflexivity.
    + rewrite IH. reflexivity.
Qed.

Theorem utf8_streaming bs :
  valid_utf8 bs -> forall parts, concat parts = bs ->
  exists l, decode_streaming parts = Some l /\ decode_whole bs = Some (concat l) /\ length l = length parts.
Proof.
  intros [s Hs] parts Hc. unfold decode_streaming. pose proof (streaming_whole parts d_init) as H.
  rewrite Hc in H. unfold decode_whole in *. destruct (decode_chunk d_init bs) as [[s' st']|]; [|discriminate].
  destruct (decode_flush st'); [|discriminate].
  destruct H as (l & E & El & Ll). exists l. rewrite El. auto.
Qed.

Theorem utf8_invalid_rejected bs :
  decode_whole bs = None -> forall parts, concat parts = bs -> decode_streaming parts = None.
Proof.
  intros Hs parts Hc. unfold decode_streaming. pose proof (streaming_whole parts d_init) as H.
  rewrite Hc in H. unfold decode_whole in *. destruct (decode_chunk d_init bs) as [[s' st']|]; [|exact H].
  destruct (decode_flush st'); [discriminate|exact H].
Qed.

(* whole = streaming on the one-chunk partition *)
Lemma decode_whole_streaming bs : decode_whole bs = option_map (@concat ch) (decode_streaming [bs]).
Proof.
  unfold decode_whole, decode_streaming. cbn. destruct (decode_chunk d_init bs) as [[s st]|]; [|reflexivity].
  destruct (decode_flush st); cbn; [rewrite app_nil_r|]; reflexivity.
Qed.

