(* EntryNumLit.v - entry point of NumLit.v (code 570).
   570: arg = L [A which; L code points]      which = 0 py_int_lit, 1 py_float_lit, 2 js_number_lit,
                                              3 common_notation, 4 numeric_core (result A 0 | A 1)
        result:  NLOk of an integer z   = L [A 0; sx_of_Z z]                       (sx_of_Z z = L [A sign; A magnitude], sign 1 = negative)
                 NLOk of a rational n/d = L [A 0; sx_of_Z n; A d]                  (lowest terms, d > 0)
                 NLError                = L [A 1]
                 NLUnmodelled           = L [A 2] *)
From RBQL Require Import Base Sx Value NumLit.
From Coq Require Import QArith.
Local Open Scope N_scope.

Definition sx_of_nl {T} (f : T -> list sx) (r : nl_result T) : sx :=
  match r with
  | NLOk v => L (A 0 :: f v)
  | NLError => L [A 1]
  | NLUnmodelled => L [A 2]
  end.

Definition sx_int (z : Z) : list sx := [sx_of_Z z].
Definition sx_rat (q : Q) : list sx := [sx_of_Z (Qnum q); A (Npos (Qden q))].

Definition ep_numlit (x : sx) : sx :=
  match x with
  | L [A which; s] =>
      match str_of_sx s with
      | Some t =>
          match which with
          | 0 => sx_of_nl sx_int (py_int_lit t)
          | 1 => sx_of_nl sx_rat (py_float_lit t)
          | 2 => sx_of_nl sx_rat (js_number_lit t)
          | 3 => sx_of_bool (common_notation t)
          | 4 => sx_of_bool (numeric_core t)
          | _ => ERR
          end
      | None => ERR
      end
  | _ => ERR
  end.

Definition dispatch_numlit (code : N) (x : sx) : option sx :=
  match code with
  | 570 => Some (ep_numlit x)
  | _ => None
  end.
