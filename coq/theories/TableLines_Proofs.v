(* TableLines_Proofs.v — the physical-line layer of the table round trip:
     * [cut W]: the physical lines a written line W is broken into by the reader (breaks at LF | CR | CRLF, a final
       empty piece is kept), with  join [LF] (cut W) = nl_norm W;
     * split_lines of "every written line followed by the line separator" = the concatenation of the cuts
       (lines_of_written_gen), and = the lines themselves when they contain no line break (lines_of_written);
     * [nlq]: "every line break of W sits at an odd number of double quotes and the total is even" - the invariant of
       a quoted_rfc output line - makes group_rfc re-assemble exactly one logical row nl_norm W per written line. *)
From RBQL Require Import Base Lines Csv CsvSpec Reader CsvStr_Proofs Csv_Proofs Reader_Proofs.

Definition isnl (c : ch) : bool := N.eqb c LF || N.eqb c CR.

(* no LF and no CR: Lines.has_newline d = false (existsb isnl) *)
Definition hasnl (s : str) : bool := Lines.has_newline s.

Lemma hasnl_cons c s : hasnl (c :: s) = isnl c || hasnl s.
Proof. reflexivity. Qed.

Lemma hasnl_app a b : hasnl (a ++ b) = hasnl a || hasnl b.
Proof. apply has_newline_app. Qed.

Lemma hasnl_spec s : CsvSpec.has_newline s = hasnl s.
Proof.
  unfold CsvSpec.has_newline, hasnl, Lines.has_newline, has. induction s as [|c s IH]; [reflexivity|].
  cbn [existsb]. rewrite <- IH. rewrite (N.eqb_sym LF c), (N.eqb_sym CR c).
  destruct (N.eqb c LF), (N.eqb c CR), (existsb (N.eqb LF) s), (existsb (N.eqb CR) s); reflexivity.
Qed.

Lemma isnl_false c : isnl c = false -> c <> LF /\ c <> CR.
Proof.
  unfold isnl. intros H. apply orb_false_iff in H. destruct H as [H1 H2].
  apply N.eqb_neq in H1. apply N.eqb_neq in H2. split; assumption.
Qed.

Lemma isnl_QT : isnl QT = false.
Proof. reflexivity. Qed.

(* the string ends with CR *)
Fixpoint ecr (s : str) : bool :=
  match s with
  | [] => false
  | c :: t => match t with [] => N.eqb c CR | _ => ecr t end
  end.

Lemma ecr_cons2 c d t : ecr (c :: d :: t) = ecr (d :: t).
Proof. reflexivity. Qed.

Lemma ecr_tail c t : ecr (c :: t) = false -> ecr t = false.
Proof. destruct t as [|d t]; [reflexivity|]. rewrite ecr_cons2. auto. Qed.

Lemma ecr_snoc a c : ecr (a ++ [c]) = N.eqb c CR.
Proof.
  induction a as [|x a IH]; [reflexivity|]. destruct a as [|y a]; [reflexivity|].
  change ((x :: y :: a) ++ [c]) with (x :: y :: (a ++ [c])). rewrite ecr_cons2. exact IH.
Qed.

Lemma ecr_plain s : hasnl s = false -> ecr s = false.
Proof.
  induction s as [|c s IH]; intros H; [reflexivity|]. rewrite hasnl_cons in H. apply orb_false_iff in H. destruct H as [Hc Hs].
  destruct s as [|d s]; [|rewrite ecr_cons2; apply IH; exact Hs].
  cbn [ecr]. apply isnl_false in Hc. apply N.eqb_neq. apply Hc.
Qed.

Lemma ecr_app a b : b <> [] -> ecr (a ++ b) = ecr b.
Proof.
  intros Hb. induction a as [|x a IH]; [reflexivity|]. cbn [app].
  destruct (a ++ b) as [|y r] eqn:E; [destruct a; [cbn in E; congruence|discriminate]|].
  rewrite ecr_cons2. exact IH.
Qed.

(* ------------------------------------------------------------------ cut *)

Definition cons_hd (c : ch) (l : list str) : list str :=
  match l with x :: r => (c :: x) :: r | [] => [[c]] end.

Fixpoint cut (s : str) : list str :=
  match s with
  | [] => [[]]
  | c :: t =>
      if N.eqb c LF then [] :: cut t
      else if N.eqb c CR then
        match t with
        | d :: t' => if N.eqb d LF then [] :: cut t' else [] :: cut t
        | [] => [[]; []]
        end
      else cons_hd c (cut t)
  end.

Lemma cut_nil : cut [] = [[]].
Proof. reflexivity. Qed.
Lemma cut_lf t : cut (LF :: t) = [] :: cut t.
Proof. reflexivity. Qed.
Lemma cut_crlf t : cut (CR :: LF :: t) = [] :: cut t.
Proof. reflexivity. Qed.
Lemma cut_cr_end : cut [CR] = [[]; []].
Proof. reflexivity. Qed.
Lemma cut_cr d t : d <> LF -> cut (CR :: d :: t) = [] :: cut (d :: t).
Proof. intros H. cbn [cut]. change (N.eqb CR LF) with false. change (N.eqb CR CR) with true. cbv iota. rewrite (neqb_neq _ _ H). reflexivity. Qed.
Lemma cut_ch c t : isnl c = false -> cut (c :: t) = cons_hd c (cut t).
Proof. intros H. apply isnl_false in H. destruct H as [H1 H2]. cbn [cut]. rewrite (neqb_neq _ _ H1), (neqb_neq _ _ H2). reflexivity. Qed.

(* case analysis on the head of a string, in the shape the line breaker looks at it *)
Inductive head_view : str -> Type :=
| HV_nil : head_view []
| HV_lf t : head_view (LF :: t)
| HV_cr_end : head_view [CR]
| HV_crlf t : head_view (CR :: LF :: t)
| HV_cr d t : d <> LF -> head_view (CR :: d :: t)
| HV_ch c t : isnl c = false -> head_view (c :: t).

Lemma head_view_of s : head_view s.
Proof.
  destruct s as [|c t]; [constructor|].
  destruct (N.eqb c LF) eqn:E1; [apply N.eqb_eq in E1; subst c; constructor|].
  destruct (N.eqb c CR) eqn:E2.
  - apply N.eqb_eq in E2; subst c. destruct t as [|d t]; [constructor|].
    destruct (N.eqb d LF) eqn:E3; [apply N.eqb_eq in E3; subst d; constructor|].
    apply HV_cr. apply N.eqb_neq. exact E3.
  - apply HV_ch. unfold isnl. rewrite E1, E2. reflexivity.
Qed.

(* induction following the line breaker *)
Lemma nl_ind (P : str -> Prop) :
  P [] -> (forall t, P t -> P (LF :: t)) -> P [CR] -> (forall t, P t -> P (CR :: LF :: t)) ->
  (forall d t, d <> LF -> P (d :: t) -> P (CR :: d :: t)) ->
  (forall c t, isnl c = false -> P t -> P (c :: t)) ->
  forall s, P s.
Proof.
  intros H0 H1 H2 H3 H4 H5 s. remember (length s) as n eqn:Hn. revert s Hn.
  induction n as [n IH] using lt_wf_ind. intros s Hn.
  destruct (head_view_of s) as [|t| |t|d t Hd|c t Hc].
  - exact H0.
  - apply H1. apply (IH (length t)); [subst n; cbn; lia|reflexivity].
  - exact H2.
  - apply H3. apply (IH (length t)); [subst n; cbn; lia|reflexivity].
  - apply H4; [exact Hd|]. apply (IH (length (d :: t))); [subst n; cbn; lia|reflexivity].
  - apply H5; [exact Hc|]. apply (IH (length t)); [subst n; cbn; lia|reflexivity].
Qed.

Lemma cut_nonnil s : cut s <> [].
Proof.
  induction s as [| t IH | | t IH | d t Hd IH | c t Hc IH] using nl_ind.
  - discriminate.
  - rewrite cut_lf. discriminate.
  - discriminate.
  - rewrite cut_crlf. discriminate.
  - rewrite (cut_cr _ _ Hd). discriminate.
  - rewrite (cut_ch _ _ Hc). destruct (cut t); discriminate.
Qed.

Lemma join_nil_cons (d : str) (l : list str) : l <> [] -> join d ([] :: l) = d ++ join d l.
Proof. intros H. exact (join_cons d [] l H). Qed.

Lemma join_cons_hd d c l : join d (cons_hd c l) = c :: join d l.
Proof. destruct l as [|x [|y r]]; reflexivity. Qed.

(* the logical row the quoted_rfc reader assembles from the pieces is the line with its breaks normalised *)
Lemma join_cut s : join [LF] (cut s) = nl_norm s.
Proof.
  induction s as [| t IH | | t IH | d t Hd IH | c t Hc IH] using nl_ind.
  - reflexivity.
  - rewrite cut_lf, (join_nil_cons _ _ (cut_nonnil t)), IH. reflexivity.
  - reflexivity.
  - rewrite cut_crlf, (join_nil_cons _ _ (cut_nonnil t)), IH. reflexivity.
  - rewrite (cut_cr _ _ Hd), (join_nil_cons _ _ (cut_nonnil _)), IH.
    cbn [nl_norm]. change (N.eqb CR CR) with true. cbv iota. rewrite (neqb_neq _ _ Hd). reflexivity.
  - rewrite (cut_ch _ _ Hc), join_cons_hd, IH. apply isnl_false in Hc. destruct Hc as [_ Hc].
    cbn [nl_norm]. rewrite (neqb_neq _ _ Hc). reflexivity.
Qed.

Lemma cut_plain s : hasnl s = false -> cut s = [s].
Proof.
  induction s as [|c s IH]; intros H; [reflexivity|]. rewrite hasnl_cons in H. apply orb_false_iff in H. destruct H as [Hc Hs].
  rewrite (cut_ch _ _ Hc), (IH Hs). reflexivity.
Qed.

(* the first piece is a prefix of the line *)
Lemma cut_hd_prefix s : exists b, s = hd [] (cut s) ++ b.
Proof.
  induction s as [|c t [b IH]]; [exists []; reflexivity|].
  destruct (isnl c) eqn:Hc.
  - exists (c :: t). unfold isnl in Hc. apply orb_true_iff in Hc. destruct Hc as [Hc|Hc]; apply N.eqb_eq in Hc; subst c.
    + reflexivity.
    + destruct t as [|d t]; [reflexivity|]. cbn [cut]. change (N.eqb CR LF) with false. change (N.eqb CR CR) with true. cbv iota.
      destruct (N.eqb d LF); reflexivity.
  - exists b. rewrite (cut_ch _ _ Hc). pose proof (cut_nonnil t) as Hn. destruct (cut t) as [|x r]; [congruence|].
    cbn [cons_hd hd app] in *. rewrite <- IH. reflexivity.
Qed.

Lemma nl_norm_hd_prefix s : exists b, nl_norm s = hd [] (cut s) ++ b.
Proof.
  rewrite <- join_cut. pose proof (cut_nonnil s) as Hn. destruct (cut s) as [|x r]; [congruence|].
  destruct r as [|y r]; [exists []; cbn; rewrite app_nil_r; reflexivity|].
  eexists. rewrite join_cons by discriminate. reflexivity.
Qed.

Lemma nl_norm_plain s : hasnl s = false -> nl_norm s = s.
Proof. intros H. rewrite <- join_cut, (cut_plain _ H). reflexivity. Qed.

(* ------------------------------------------------------------------ split_lines, structurally *)

Lemma split_lines_lf t : split_lines (LF :: t) = [] :: split_lines t.
Proof. rewrite split_lines_next. reflexivity. Qed.

Lemma split_lines_crlf t : split_lines (CR :: LF :: t) = [] :: split_lines t.
Proof. rewrite split_lines_next. reflexivity. Qed.

Lemma split_lines_cr_end : split_lines [CR] = [[]].
Proof. reflexivity. Qed.

Lemma split_lines_cr d t : d <> LF -> split_lines (CR :: d :: t) = [] :: split_lines (d :: t).
Proof.
  intros H. rewrite split_lines_next. unfold next. cbn [extract]. change (N.eqb CR LF) with false. change (N.eqb CR CR) with true.
  cbv iota. rewrite (neqb_neq _ _ H). reflexivity.
Qed.

Lemma split_lines_ch c t : isnl c = false -> split_lines (c :: t) = cons_hd c (split_lines t).
Proof.
  intros H. apply isnl_false in H. destruct H as [H1 H2].
  rewrite (split_lines_next (c :: t)), (split_lines_next t). unfold next. cbn [extract].
  rewrite (neqb_neq _ _ H1), (neqb_neq _ _ H2).
  destruct (extract t) as [[[b s] a]|]; [reflexivity|]. destruct t; reflexivity.
Qed.

(* the line separators: LF, CRLF, and CR alone (then the following text must not begin with LF) *)
Definition line_sep (ls : str) : Prop := ls = [LF] \/ ls = [CR; LF] \/ ls = [CR].

Definition no_lf_head (s : str) : bool := negb (starts_with [LF] s).

Lemma no_lf_head_cons c s : no_lf_head (c :: s) = negb (N.eqb LF c).
Proof. unfold no_lf_head. cbn [starts_with]. rewrite andb_true_r. reflexivity. Qed.

Lemma no_lf_head_app a b : a <> [] -> no_lf_head (a ++ b) = no_lf_head a.
Proof. destruct a as [|c a]; [congruence|]. intros _. cbn [app]. rewrite !no_lf_head_cons. reflexivity. Qed.

Lemma split_lines_sep ls rest : line_sep ls -> (ls = [CR] -> no_lf_head rest = true) -> split_lines (ls ++ rest) = [] :: split_lines rest.
Proof.
  intros [->|[->| ->]] Hr; [apply split_lines_lf|apply split_lines_crlf|]. specialize (Hr eq_refl).
  destruct rest as [|d rest]; [reflexivity|]. rewrite no_lf_head_cons in Hr. apply negb_true_iff in Hr.
  cbn [app]. apply split_lines_cr. apply N.eqb_neq. rewrite N.eqb_sym. exact Hr.
Qed.

(* a written line that does not end with CR, followed by the separator: its pieces, then the rest *)
Lemma split_lines_cut ls rest : line_sep ls -> (ls = [CR] -> no_lf_head rest = true) -> forall W, ecr W = false ->
  split_lines (W ++ ls ++ rest) = cut W ++ split_lines rest.
Proof.
  intros Hls Hrest W. induction W as [| t IH | | t IH | d t Hd IH | c t Hc IH] using nl_ind; intros He.
  - exact (split_lines_sep ls rest Hls Hrest).
  - cbn [app]. rewrite split_lines_lf, cut_lf, IH by (apply (ecr_tail _ _ He)). reflexivity.
  - discriminate.
  - cbn [app]. rewrite split_lines_crlf, cut_crlf, IH by (apply (ecr_tail _ _ (ecr_tail _ _ He))). reflexivity.
  - change ((CR :: d :: t) ++ ls ++ rest) with (CR :: d :: (t ++ ls ++ rest)).
    rewrite (split_lines_cr _ _ Hd), (cut_cr _ _ Hd). change (d :: t ++ ls ++ rest) with ((d :: t) ++ ls ++ rest).
    rewrite IH by (apply (ecr_tail _ _ He)). reflexivity.
  - cbn [app]. rewrite (split_lines_ch _ _ Hc), (cut_ch _ _ Hc), IH by (apply (ecr_tail _ _ He)).
    pose proof (cut_nonnil t) as Hn. destruct (cut t); [congruence|reflexivity].
Qed.

(* the text a writer emits: every line followed by the line separator *)
Definition emit (ls : str) (lines : list str) : str := concat (map (fun l => l ++ ls) lines).

Lemma emit_cons ls l r : emit ls (l :: r) = l ++ ls ++ emit ls r.
Proof. unfold emit. cbn [map concat]. rewrite <- app_assoc. reflexivity. Qed.


(* a written line is "clean": it does not end with CR and does not begin with LF *)
Definition clean_line (l : str) : Prop := ecr l = false /\ no_lf_head l = true.

Lemma emit_no_lf_head lines : Forall clean_line lines -> no_lf_head (emit [CR] lines) = true.
Proof.
  intros H. destruct H as [|l r [_ Hl] Hr]; [reflexivity|]. rewrite emit_cons. destruct l as [|c l]; [reflexivity|].
  rewrite no_lf_head_app by discriminate. exact Hl.
Qed.

Theorem lines_of_written_gen ls lines : line_sep ls -> Forall clean_line lines ->
  split_lines (emit ls lines) = concat (map cut lines).
Proof.
  intros Hls H. induction H as [|l r Hl Hr IH]; [reflexivity|].
  rewrite emit_cons, (split_lines_cut ls _ Hls (fun E => eq_ind_r (fun x => no_lf_head (emit x r) = true) (emit_no_lf_head r Hr) E) l (proj1 Hl)), IH. reflexivity.
Qed.

Lemma plain_clean l : hasnl l = false -> clean_line l.
Proof.
  intros H. split; [apply ecr_plain; exact H|]. destruct l as [|c l]; [reflexivity|]. rewrite no_lf_head_cons.
  rewrite hasnl_cons in H. apply orb_false_iff in H. destruct H as [H _]. apply isnl_false in H. destruct H as [H _].
  apply negb_true_iff. apply N.eqb_neq. congruence.
Qed.

Theorem lines_of_written ls lines : line_sep ls -> Forall (fun l => hasnl l = false) lines ->
  split_lines (emit ls lines) = lines.
Proof.
  intros Hls H. rewrite (lines_of_written_gen ls lines Hls).
  - induction H as [|l r Hl Hr IH]; [reflexivity|]. cbn [map concat]. rewrite (cut_plain _ Hl), IH. reflexivity.
  - eapply Forall_impl; [|exact H]. intros l Hl. apply plain_clean. exact Hl.
Qed.

(* ------------------------------------------------------------------ the quote-parity invariant of a quoted_rfc line *)

(* [o] = the number of double quotes seen so far is odd.  Every line break at odd parity, even total. *)
Fixpoint nlq (o : bool) (s : str) : bool :=
  match s with
  | [] => negb o
  | c :: t => if N.eqb c QT then nlq (negb o) t else if isnl c then o && nlq o t else nlq o t
  end.

Lemma nlq_qt o t : nlq o (QT :: t) = nlq (negb o) t.
Proof. reflexivity. Qed.

Lemma nlq_nl o c t : isnl c = true -> nlq o (c :: t) = o && nlq o t.
Proof.
  intros H. cbn [nlq]. rewrite H. destruct (N.eqb c QT) eqn:E; [|reflexivity].
  apply N.eqb_eq in E. subst c. discriminate.
Qed.

Lemma nlq_ch o c t : isnl c = false -> c <> QT -> nlq o (c :: t) = nlq o t.
Proof. intros H1 H2. cbn [nlq]. rewrite H1, (neqb_neq _ _ H2). reflexivity. Qed.

Lemma nlq_plain o a b : has QT a = false -> hasnl a = false -> nlq o (a ++ b) = nlq o b.
Proof.
  induction a as [|c a IH]; intros Hq Hn; [reflexivity|]. apply has_cons_false in Hq. destruct Hq as [Hc Hq].
  rewrite hasnl_cons in Hn. apply orb_false_iff in Hn. destruct Hn as [Hn1 Hn2].
  cbn [app]. rewrite (nlq_ch _ _ _ Hn1 Hc). apply IH; assumption.
Qed.

Lemma nlq_double f b : nlq true (double f ++ b) = nlq true b.
Proof.
  induction f as [|c f IH]; [reflexivity|]. rewrite double_cons, <- app_assoc.
  destruct (N.eqb c QT) eqn:E.
  - cbn [app]. rewrite !nlq_qt. exact IH.
  - cbn [app]. destruct (isnl c) eqn:Hn.
    + rewrite (nlq_nl _ _ _ Hn). cbn [andb]. exact IH.
    + apply N.eqb_neq in E. rewrite (nlq_ch _ _ _ Hn E). exact IH.
Qed.

Lemma nlq_wrap f b : nlq false (wrap (double f) ++ b) = nlq false b.
Proof.
  unfold wrap. cbn [app]. rewrite nlq_qt, <- app_assoc. cbn [negb]. rewrite nlq_double. cbn [app]. rewrite nlq_qt. reflexivity.
Qed.

Lemma nlq_ecr s : forall o, nlq o s = true -> ecr s = false.
Proof.
  induction s as [|c s IH]; intros o H; [reflexivity|]. destruct s as [|d s].
  - cbn [ecr]. destruct (N.eqb c CR) eqn:E; [|reflexivity]. apply N.eqb_eq in E. subst c.
    rewrite nlq_nl in H by reflexivity. cbn [nlq] in H. destruct o; discriminate.
  - rewrite ecr_cons2. cbn [nlq] in H. destruct (N.eqb c QT); [exact (IH _ H)|]. destruct (isnl c); [|exact (IH _ H)].
    apply andb_true_iff in H. destruct H as [_ H]. exact (IH _ H).
Qed.

Lemma nlq_clean s : nlq false s = true -> clean_line s.
Proof.
  intros H. split; [exact (nlq_ecr s false H)|]. destruct s as [|c s]; [reflexivity|]. rewrite no_lf_head_cons.
  destruct (N.eqb LF c) eqn:E; [|reflexivity]. apply N.eqb_eq in E. subst c. rewrite nlq_nl in H by reflexivity. discriminate.
Qed.

(* parities of the pieces: [o] = the record under assembly has an odd number of quotes so far *)
Fixpoint pok (o : bool) (ps : list str) : Prop :=
  match ps with
  | [] => False
  | p :: r => match r with
              | [] => xorb o (quotes_odd p) = false
              | _ :: _ => xorb o (quotes_odd p) = true /\ pok true r
              end
  end.

Lemma pok_head o o' x y r : xorb o (quotes_odd y) = xorb o' (quotes_odd x) -> pok o' (x :: r) -> pok o (y :: r).
Proof. intros E. destruct r; cbn [pok]; rewrite E; auto. Qed.

Lemma quotes_odd_qt x : quotes_odd (QT :: x) = negb (quotes_odd x).
Proof. unfold quotes_odd, count_ch. cbn [filter]. change (N.eqb QT QT) with true. cbv iota. cbn [length]. rewrite Nat.odd_succ, <- Nat.negb_odd. reflexivity. Qed.

Lemma quotes_odd_ch c x : c <> QT -> quotes_odd (c :: x) = quotes_odd x.
Proof. intros H. unfold quotes_odd, count_ch. cbn [filter]. rewrite (N.eqb_sym QT c), (neqb_neq _ _ H). reflexivity. Qed.

Lemma pok_nil_cons l : l <> [] -> pok true l -> pok true ([] :: l).
Proof. intros Hn H. destruct l as [|x r]; [congruence|]. cbn [pok]. split; [reflexivity|exact H]. Qed.

Lemma nlq_pok s : forall o, nlq o s = true -> pok o (cut s).
Proof.
  induction s as [| t IH | | t IH | d t Hd IH | c t Hc IH] using nl_ind; intros o H.
  - cbn [nlq] in H. destruct o; [discriminate|]. reflexivity.
  - rewrite nlq_nl in H by reflexivity. apply andb_true_iff in H. destruct H as [-> H].
    rewrite cut_lf. apply pok_nil_cons; [apply cut_nonnil|apply IH; exact H].
  - rewrite nlq_nl in H by reflexivity. cbn [nlq] in H. destruct o; discriminate.
  - rewrite nlq_nl in H by reflexivity. apply andb_true_iff in H. destruct H as [-> H].
    rewrite nlq_nl in H by reflexivity. cbn [andb] in H.
    rewrite cut_crlf. apply pok_nil_cons; [apply cut_nonnil|apply IH; exact H].
  - rewrite nlq_nl in H by reflexivity. apply andb_true_iff in H. destruct H as [-> H].
    rewrite (cut_cr _ _ Hd). apply pok_nil_cons; [apply cut_nonnil|apply IH; exact H].
  - rewrite (cut_ch _ _ Hc). pose proof (cut_nonnil t) as Hn. specialize (IH (if N.eqb c QT then negb o else o)).
    destruct (cut t) as [|x r]; [congruence|]. cbn [cons_hd].
    destruct (N.eqb c QT) eqn:E.
    + apply N.eqb_eq in E. subst c. rewrite nlq_qt in H. apply (pok_head o (negb o) x); [|apply IH; exact H].
      rewrite quotes_odd_qt. destruct o, (quotes_odd x); reflexivity.
    + apply N.eqb_neq in E. rewrite (nlq_ch _ _ _ Hc E) in H. apply (pok_head o o x); [|apply IH; exact H].
      rewrite (quotes_odd_ch _ _ E). reflexivity.
Qed.

(* ------------------------------------------------------------------ group_rfc on the pieces of one line *)

Lemma xorb_solve o q b : xorb o q = b -> q = xorb o b.
Proof. destruct o, q, b; cbn; congruence. Qed.

Lemma group_rfc_pieces c : forall ps open nl L,
  pok (nonnil open) ps -> (open = [] -> is_comment c (hd [] ps) = false) ->
  group_rfc c open nl (ps ++ L) = (join [LF] (open ++ ps), nl + length ps)%nat :: group_rfc c [] (nl + length ps) L.
Proof.
  induction ps as [|p r IH]; intros open nl L Hp Hc; [destruct Hp|].
  destruct r as [|p2 r].
  - cbn [pok] in Hp. apply xorb_solve in Hp. cbn [app length]. rewrite Nat.add_1_r. destruct open as [|o os].
    + cbn [nonnil xorb] in Hp. cbn [group_rfc]. pose proof (Hc eq_refl) as Hc'. cbn [hd] in Hc'. rewrite Hc', Hp. reflexivity.
    + cbn [nonnil xorb] in Hp. rewrite group_rfc_open, Hp. reflexivity.
  - cbn [pok] in Hp. destruct Hp as [Hp Hr]. apply xorb_solve in Hp. change ((p :: p2 :: r) ++ L) with (p :: (p2 :: r) ++ L).
    cbn [length]. rewrite <- Nat.add_succ_comm. destruct open as [|o os].
    + cbn [nonnil xorb] in Hp. cbn [group_rfc]. pose proof (Hc eq_refl) as Hc'. cbn [hd] in Hc'. rewrite Hc', Hp.
      rewrite (IH [p] (S nl) L Hr) by discriminate. reflexivity.
    + cbn [nonnil xorb] in Hp. rewrite group_rfc_open, Hp.
      rewrite (IH ((o :: os) ++ [p]) (S nl) L) by (try exact Hr; discriminate). rewrite <- app_assoc. reflexivity.
Qed.

(* the logical rows of a sequence of written lines, numbered by their last physical line *)
Fixpoint number_cut (nl : nat) (Ws : list str) : list (str * nat) :=
  match Ws with
  | [] => []
  | W :: r => (nl_norm W, nl + length (cut W))%nat :: number_cut (nl + length (cut W)) r
  end.

Lemma map_fst_number_cut Ws : forall nl, map fst (number_cut nl Ws) = map nl_norm Ws.
Proof. induction Ws as [|W r IH]; intros nl; [reflexivity|]. cbn [number_cut map fst]. rewrite IH. reflexivity. Qed.

Lemma starts_with_app_true p a b : starts_with p a = true -> starts_with p (a ++ b) = true.
Proof. intros H. apply starts_with_true in H. destruct H as [r ->]. rewrite <- app_assoc. apply starts_with_app. Qed.

Lemma is_comment_prefix c a b : is_comment c (a ++ b) = false -> is_comment c a = false.
Proof.
  unfold is_comment. destruct (eff_comment c) as [p|]; [|reflexivity]. intros H.
  destruct (starts_with p a) eqn:E; [|reflexivity]. rewrite (starts_with_app_true _ _ b E) in H. discriminate.
Qed.

Lemma is_comment_cut_hd c W : is_comment c (nl_norm W) = false -> is_comment c (hd [] (cut W)) = false.
Proof. destruct (nl_norm_hd_prefix W) as [b ->]. apply is_comment_prefix. Qed.

Theorem group_rfc_written c Ws : forall nl,
  Forall (fun W => nlq false W = true /\ is_comment c (nl_norm W) = false) Ws ->
  group_rfc c [] nl (concat (map cut Ws)) = number_cut nl Ws.
Proof.
  induction Ws as [|W r IH]; intros nl H; [reflexivity|]. inversion H as [|? ? [Hq Hc] Hr]; subst.
  cbn [map concat number_cut]. rewrite (group_rfc_pieces c (cut W) [] nl).
  - cbn [app]. rewrite join_cut, (IH _ Hr). reflexivity.
  - cbn [nonnil]. apply nlq_pok. exact Hq.
  - intros _. apply is_comment_cut_hd. exact Hc.
Qed.

Lemma number_from_plain lines : forall nl, map fst (number_from nl lines) = lines.
Proof. intros nl. apply map_fst_number_from. Qed.

Print Assumptions lines_of_written_gen.
Print Assumptions lines_of_written.
Print Assumptions group_rfc_written.
