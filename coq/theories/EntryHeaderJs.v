(* EntryHeaderJs.v - entry points of HeaderJs.v (codes 551-554) *)
From RBQL Require Import Base Sx Expr Parser Header HeaderJs EntryHeader.

Definition sx_of_tbl (t : tbl) : sx := A (match t with TA => 0 | TB => 1 end)%N.

Definition sx_of_jinfo (q : jinfo) : sx :=
  match q with
  | JStar t => L [A 0%N; sx_of_option sx_of_tbl t]
  | JIdx t z => L [A 1%N; sx_of_tbl t; sx_of_Z z]
  | JName s => L [A 2%N; sx_of_str s]
  | JAlias s => L [A 3%N; sx_of_str s]
  end.

Definition jinfo_of_sx (x : sx) : option jinfo :=
  match x with
  | L [A 0%N; L []] => Some (JStar None)
  | L [A 0%N; L [A t]] => Some (JStar (Some (tbl_of_n t)))
  | L [A 1%N; A t; z] => match Z_of_sx z with Some v => Some (JIdx (tbl_of_n t) v) | None => None end
  | L [A 2%N; s] => match str_of_sx s with Some v => Some (JName v) | None => None end
  | L [A 3%N; s] => match str_of_sx s with Some v => Some (JAlias v) | None => None end
  | _ => None
  end.

(* None (RbqlParsingError of the bracket scan) = L [] *)
Definition sx_of_infos (r : option (list (option jinfo))) : sx :=
  sx_of_option (sx_of_list (sx_of_option sx_of_jinfo)) r.

(* 551: infos_js  (star marking + str_strip + adhoc parse)   arg = L [select expression; L literals]
   552: adhoc_infos (adhoc_parse_select_expression_to_column_infos alone), same argument *)
Definition ep_infos (f : str -> list str -> option (list (option jinfo))) (x : sx) : sx :=
  match x with
  | L [sel; lits] =>
      match str_of_sx sel, list_of_sx str_of_sx lits with
      | Some s, Some l => sx_of_infos (f s l)
      | _, _ => ERR
      end
  | _ => ERR
  end.

Definition sx_of_jhres (r : jhres) : sx :=
  match r with
  | JHNone => L [A 0%N]
  | JHSome h => L [A 1%N; sx_of_list (sx_of_option sx_of_str) h]
  | JHErr => L [A 2%N]
  end.

(* 553: select_output_header (JS) over column infos with integer indices; arg = L [opt ih; opt jh; L (opt jinfo)]
   554: the Python loop over the same infos on headers that are present; result L [] = IndexError *)
Definition ep_header_js (x : sx) : sx :=
  match x with
  | L [ih; jh; infos] =>
      match option_of_sx (list_of_sx str_of_sx) ih, option_of_sx (list_of_sx str_of_sx) jh,
            list_of_sx (option_of_sx jinfo_of_sx) infos with
      | Some i, Some j, Some qs => sx_of_jhres (select_output_header_js i j qs)
      | _, _, _ => ERR
      end
  | _ => ERR
  end.

Definition ep_header_pyz (x : sx) : sx :=
  match x with
  | L [ih; jh; infos] =>
      match list_of_sx str_of_sx ih, list_of_sx str_of_sx jh, list_of_sx (option_of_sx jinfo_of_sx) infos with
      | Some i, Some j, Some qs => sx_of_option (sx_of_list sx_of_str) (build_header_pyz i j qs [])
      | _, _, _ => ERR
      end
  | _ => ERR
  end.

(* 555: the second component of translate_select_expression (replace_star_count first; Parser.v) handed to the adhoc parse;
   L [] also when translate_select_expression throws ("SELECT" expression is empty) *)
Definition infos_js_translated (sel : str) (lits : list str) : option (list (option jinfo)) :=
  match translate_select_expression LJs sel with
  | Ok _ => infos_js (replace_star_count LJs sel) lits
  | Err _ => None
  end.

Definition dispatch_headerjs (code : N) (x : sx) : option sx :=
  match code with
  | 551%N => Some (ep_infos infos_js x)
  | 552%N => Some (ep_infos (fun s l => adhoc_infos l s) x)
  | 553%N => Some (ep_header_js x)
  | 554%N => Some (ep_header_pyz x)
  | 555%N => Some (ep_infos infos_js_translated x)
  | _ => None
  end.
