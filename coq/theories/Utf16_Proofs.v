(* Utf16_Proofs.v - code unit order (JavaScript) against code point order (Python).
   utf16_order_agree      : on strings whose code points all lie below the surrogates or beyond the BMP the two orders agree
   utf16_order_agree_bmp  : on strings within the BMP the encoding is the identity and the orders are the same function
   utf16_order_refuted    : U+FF01 sorts after U+1F600 in JavaScript, before it in Python
   utf16_encode_injective : on scalar values the encoding loses nothing (=== of JS strings is == of Python strings) *)
From RBQL Require Import Base Value Utf16.
Local Open Scope N_scope.

Lemma units_ltb_str_ltb : forall a b, units_ltb a b = str_ltb a b.
Proof. induction a as [|x a IH]; destruct b as [|y b]; reflexivity. Qed.

Lemma units_ltb_app : forall u a b, units_ltb (u ++ a) (u ++ b) = units_ltb a b.
Proof.
  induction u as [|c u IH]; intros a b; [reflexivity|]. cbn [app units_ltb].
  rewrite N.ltb_irrefl, N.eqb_refl. cbn [orb andb]. apply IH.
Qed.

(* two different code points, both below the surrogates or astral: the first code units that differ order them *)
Lemma units_order_ne : forall x y a b, low_or_astral x = true -> low_or_astral y = true -> x <> y ->
  units_ltb (utf16_units x ++ a) (utf16_units y ++ b) = N.ltb x y.
Proof.
  intros x y a b Hx Hy Hne. unfold low_or_astral in Hx, Hy. unfold utf16_units.
  apply orb_true_iff in Hx, Hy.
  destruct (N.ltb_spec x 65536) as [Lx|Lx], (N.ltb_spec y 65536) as [Ly|Ly]; cbn [app units_ltb].
  - assert (E : N.eqb x y = false) by (apply N.eqb_neq; exact Hne). rewrite E. cbn [andb]. apply orb_false_r.
  - destruct Hx as [Hx|Hx]; [apply N.ltb_lt in Hx | apply andb_true_iff in Hx; destruct Hx as [Hx _]; apply N.leb_le in Hx; lia].
    assert (E1 : N.ltb x (55296 + (y - 65536) / 1024) = true) by (apply N.ltb_lt; generalize ((y - 65536) / 1024); intro q; lia).
    assert (E2 : N.ltb x y = true) by (apply N.ltb_lt; lia).
    rewrite E1, E2. reflexivity.
  - destruct Hy as [Hy|Hy]; [apply N.ltb_lt in Hy | apply andb_true_iff in Hy; destruct Hy as [Hy _]; apply N.leb_le in Hy; lia].
    assert (E1 : N.ltb (55296 + (x - 65536) / 1024) y = false) by (apply N.ltb_ge; generalize ((x - 65536) / 1024); intro q; lia).
    assert (E0 : N.eqb (55296 + (x - 65536) / 1024) y = false) by (apply N.eqb_neq; generalize ((x - 65536) / 1024); intro q; lia).
    assert (E2 : N.ltb x y = false) by (apply N.ltb_ge; lia).
    rewrite E1, E0, E2. reflexivity.
  - pose proof (N.div_mod (x - 65536) 1024 ltac:(lia)) as Dx. pose proof (N.mod_lt (x - 65536) 1024 ltac:(lia)) as Mx.
    pose proof (N.div_mod (y - 65536) 1024 ltac:(lia)) as Dy. pose proof (N.mod_lt (y - 65536) 1024 ltac:(lia)) as My.
    revert Dx Mx Dy My. generalize ((x - 65536) / 1024), ((x - 65536) mod 1024), ((y - 65536) / 1024), ((y - 65536) mod 1024).
    intros qx rx qy ry Dx Mx Dy My.
    destruct (N.ltb_spec (55296 + qx) (55296 + qy)) as [A|A]; cbn [orb].
    + symmetry. apply N.ltb_lt. lia.
    + destruct (N.eqb_spec (55296 + qx) (55296 + qy)) as [B|B]; cbn [andb].
      * assert (E0 : N.eqb (56320 + rx) (56320 + ry) = false) by (apply N.eqb_neq; lia). rewrite E0. cbn [andb]. rewrite orb_false_r.
        destruct (N.ltb_spec (56320 + rx) (56320 + ry)); symmetry; [apply N.ltb_lt | apply N.ltb_ge]; lia.
      * symmetry. apply N.ltb_ge. lia.
Qed.

Theorem utf16_order_agree : forall s t,
  forallb low_or_astral s = true -> forallb low_or_astral t = true ->
  units_ltb (utf16_encode s) (utf16_encode t) = str_ltb s t.
Proof.
  assert (NE : forall x, exists c u, utf16_units x = c :: u).
  { intro x. unfold utf16_units. destruct (N.ltb x 65536); eexists _, _; reflexivity. }
  induction s as [|x s IH]; intros t Hs Ht.
  - destruct t as [|y t]; [reflexivity|]. cbn [utf16_encode flat_map str_ltb]. destruct (NE y) as [c [u E]]. rewrite E. reflexivity.
  - destruct t as [|y t].
    + cbn [utf16_encode flat_map str_ltb]. destruct (NE x) as [c [u E]]. rewrite E. reflexivity.
    + cbn [forallb] in Hs, Ht. apply andb_true_iff in Hs, Ht. destruct Hs as [Hx Hs], Ht as [Hy Ht].
      cbn [utf16_encode flat_map str_ltb]. fold (utf16_encode s). fold (utf16_encode t).
      destruct (N.eq_dec x y) as [->|Hne].
      * rewrite units_ltb_app, N.ltb_irrefl, N.eqb_refl. cbn [orb andb]. apply IH; assumption.
      * rewrite (units_order_ne x y _ _ Hx Hy Hne).
        assert (E : N.eqb x y = false) by (apply N.eqb_neq; exact Hne). rewrite E. cbn [andb]. symmetry. apply orb_false_r.
Qed.

(* within the Basic Multilingual Plane the encoding is the identity *)
Lemma utf16_encode_bmp : forall s, forallb bmp s = true -> utf16_encode s = s.
Proof.
  induction s as [|x s IH]; intro H; [reflexivity|]. cbn [forallb] in H. apply andb_true_iff in H. destruct H as [Hx Hs].
  cbn [utf16_encode flat_map]. fold (utf16_encode s). rewrite (IH Hs). unfold utf16_units. unfold bmp in Hx. rewrite Hx. reflexivity.
Qed.

Theorem utf16_order_agree_bmp : forall s t, forallb bmp s = true -> forallb bmp t = true ->
  units_ltb (utf16_encode s) (utf16_encode t) = str_ltb s t.
Proof. intros s t Hs Ht. rewrite (utf16_encode_bmp s Hs), (utf16_encode_bmp t Ht). apply units_ltb_str_ltb. Qed.

Theorem utf16_order_refuted :
  exists s t, forallb scalar s = true /\ forallb scalar t = true /\
              units_ltb (utf16_encode s) (utf16_encode t) = false /\ str_ltb s t = true.
Proof. exists [65281], [128512]. vm_compute. repeat split. Qed.

Lemma scalar_cases : forall c, scalar c = true -> c < 55296 \/ (57344 <= c /\ c < 1114112).
Proof.
  intros c H. unfold scalar in H. apply orb_true_iff in H. destruct H as [H|H].
  - left. apply N.ltb_lt. exact H.
  - right. apply andb_true_iff in H. destruct H as [A B]. apply N.leb_le in A. apply N.ltb_lt in B. split; assumption.
Qed.

Lemma cons_eq : forall (x y : N) (a b : list N), x :: a = y :: b -> x = y /\ a = b.
Proof. intros x y a b H. injection H. intros. split; assumption. Qed.

Lemma utf16_units_split : forall x y a b, scalar x = true -> scalar y = true ->
  utf16_units x ++ a = utf16_units y ++ b -> x = y /\ a = b.
Proof.
  intros x y a b Hx Hy E. apply scalar_cases in Hx, Hy. unfold utf16_units in E.
  destruct (N.ltb_spec x 65536) as [Lx|Lx], (N.ltb_spec y 65536) as [Ly|Ly]; cbn [app] in E.
  - injection E as E1 E2. split; assumption.
  - exfalso. apply cons_eq in E. destruct E as [E1 _].
    pose proof (N.div_mod (y - 65536) 1024 ltac:(lia)) as Dy. pose proof (N.mod_lt (y - 65536) 1024 ltac:(lia)) as My.
    revert E1 Dy My. generalize ((y - 65536) / 1024), ((y - 65536) mod 1024). intros q r E1 Dy My. lia.
  - exfalso. apply cons_eq in E. destruct E as [E1 _].
    pose proof (N.div_mod (x - 65536) 1024 ltac:(lia)) as Dx. pose proof (N.mod_lt (x - 65536) 1024 ltac:(lia)) as Mx.
    revert E1 Dx Mx. generalize ((x - 65536) / 1024), ((x - 65536) mod 1024). intros q r E1 Dx Mx. lia.
  - apply cons_eq in E. destruct E as [E1 E]. apply cons_eq in E. destruct E as [E2 E3].
    pose proof (N.div_mod (x - 65536) 1024 ltac:(lia)) as Dx. pose proof (N.div_mod (y - 65536) 1024 ltac:(lia)) as Dy.
    revert E1 E2 Dx Dy. generalize ((x - 65536) / 1024), ((x - 65536) mod 1024), ((y - 65536) / 1024), ((y - 65536) mod 1024).
    intros qx rx qy ry E1 E2 Dx Dy. split; [lia | exact E3].
Qed.

Theorem utf16_encode_injective : forall s t, forallb scalar s = true -> forallb scalar t = true ->
  utf16_encode s = utf16_encode t -> s = t.
Proof.
  assert (NE : forall x, exists c u, utf16_units x = c :: u).
  { intro x. unfold utf16_units. destruct (N.ltb x 65536); eexists _, _; reflexivity. }
  induction s as [|x s IH]; intros t Hs Ht E.
  - destruct t as [|y t]; [reflexivity|]. exfalso. cbn [utf16_encode flat_map] in E. destruct (NE y) as [c [u Ey]]. rewrite Ey in E. discriminate E.
  - destruct t as [|y t].
    + exfalso. cbn [utf16_encode flat_map] in E. destruct (NE x) as [c [u Ex]]. rewrite Ex in E. discriminate E.
    + cbn [forallb] in Hs, Ht. apply andb_true_iff in Hs, Ht. destruct Hs as [Hx Hs], Ht as [Hy Ht].
      cbn [utf16_encode flat_map] in E. fold (utf16_encode s) in E. fold (utf16_encode t) in E.
      destruct (utf16_units_split x y _ _ Hx Hy E) as [A B]. subst y. rewrite (IH t Hs Ht B). reflexivity.
Qed.
