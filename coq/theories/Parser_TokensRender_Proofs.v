(* Parser_TokensRender_Proofs.v — C08_token_spelling, part 3: the rendered text (head + clauses, any number of
   spaces) and what locate_statements / process_statements compute on it. *)
From RBQL Require Import Base Parser Parser_Spelling_Proofs Parser_Tokens_Proofs Parser_TokensLocate_Proofs.
From Coq Require Import Sorted.

(* a rendered clause: rc_lead + 1 spaces, the words rc_ws (a spelling of the statement rc_st) glued by
   (gap + 1) spaces, rc_sp + 1 spaces, the clause text *)
Record rcl := mkRcl { rc_st : stmt; rc_ws : list str; rc_lead : nat; rc_gaps : list nat; rc_sp : nat; rc_txt : str }.
Definition rc_kw (c : rcl) : str := kwtext (rc_ws c) (rc_gaps c).
Definition render_cl (c : rcl) : str := sps (rc_lead c) ++ SP :: rc_kw c ++ sps (S (rc_sp c)) ++ rc_txt c.
Fixpoint render_cls (cs : list rcl) : str :=
  match cs with [] => [] | c :: r => render_cl c ++ render_cls r end.
Fixpoint locs (pos : nat) (cs : list rcl) : list loc :=
  match cs with
  | [] => []
  | c :: r => ((pos + rc_lead c)%nat, (pos + rc_lead c + S (length (rc_kw c)))%nat, rc_st c)
              :: locs (pos + length (render_cl c)) r
  end.
Definition canonical (c : rcl) : Prop := rc_ws c = stmt_words (rc_st c).

(* ------------------------------------------------------------------ tables over the statements *)
Lemma stmt_words_ok : forall st, words_ok (stmt_words st) = true.
Proof. destruct st; vm_compute; reflexivity. Qed.
Lemma stmt_words_ne : forall st, stmt_words st <> [].
Proof. destruct st; discriminate. Qed.
Lemma tok_self : forall fl st, tok_cmp fl (stmt_words st) (stmt_words st) = Some true.
Proof. destruct fl, st; vm_compute; reflexivity. Qed.
(* a statement is not found inside the rendered keyword of another one, unless it is a later spelling of the JOIN
   group (JOIN inside LEFT JOIN, LEFT JOIN inside STRICT LEFT JOIN ...) *)
Lemma nohit_table : forall fl st' st, st' <> st ->
  (is_join st' = true -> is_join st = true -> stmt_id st' <= stmt_id st) ->
  nohit fl (stmt_words st') (stmt_words st) = true.
Proof.
  intros fl st' st N H.
  destruct st', st; try (contradiction N; reflexivity); try (destruct fl; vm_compute; reflexivity);
    exfalso; specialize (H eq_refl eq_refl); cbn [stmt_id] in H; lia.
Qed.

(* ------------------------------------------------------------------ quiet texts behind more spaces *)
Lemma safe_sp_head : forall fl wl x, words_ok wl = true -> wl <> [] -> safe fl wl (SP :: x) = true.
Proof.
  intros fl wl x WO NE. unfold safe. cbn [app]. rewrite (kw_at_sp_head fl wl _ WO NE).
  destruct wl as [|w wl]; [contradiction|]. cbn [words_ok forallb] in WO. apply andb_true_iff in WO. destruct WO as [WO _].
  unfold word_ok in WO. apply andb_true_iff in WO. destruct WO as [W1 W2]. destruct w as [|k w]; [discriminate W1|].
  unfold letters in W2. cbn [forallb] in W2. apply andb_true_iff in W2. destruct W2 as [W2 _].
  destruct wl as [|w2 wl]; [reflexivity|]. cbn [straddle eat_ci]. rewrite (ci_alpha_sp fl k W2). reflexivity.
Qed.

Lemma quiet_sps : forall fl wl k T, words_ok wl = true -> wl <> [] ->
  quiet fl wl (SP :: T) = true -> quiet fl wl (sps (S k) ++ T) = true.
Proof.
  intros fl wl k T WO NE Q. induction k as [|k IH]; [exact Q|].
  change (sps (S (S k)) ++ T) with (SP :: (sps (S k) ++ T)). cbn [quiet]. change (is_sp SP) with true. cbv iota.
  rewrite IH. change (sps (S k) ++ T) with (SP :: (sps k ++ T)). rewrite (safe_sp_head fl wl _ WO NE). reflexivity.
Qed.

(* ------------------------------------------------------------------ the finditer loop of one statement over the clauses *)
Definition cl_ok (fl : lang) (st' : stmt) (c : rcl) : Prop :=
  quiet fl (stmt_words st') (SP :: rc_txt c) = true /\
  (rc_st c = st' \/ nohit fl (stmt_words st') (stmt_words (rc_st c)) = true).

Lemma render_cls_tail : forall cs, is_tail (render_cls cs).
Proof.
  destruct cs as [|c r]; [left; reflexivity|]. right. cbn [render_cls]. unfold render_cl.
  destruct (rc_lead c) as [|j]; cbn [sps repeat app]; eexists; reflexivity.
Qed.

Lemma render_cl_length : forall c, length (render_cl c) = (rc_lead c + 1 + length (rc_kw c) + (S (rc_sp c) + length (rc_txt c)))%nat.
Proof. intro c. unfold render_cl. rewrite app_length. cbn [length]. rewrite !app_length, !sps_length. lia. Qed.

Lemma hits_cons : forall st' x t, hits st' (x :: t) = if stmt_eqb (lst x) st' then hit_of x :: hits st' t else hits st' t.
Proof. intros. unfold hits. cbn [filter]. destruct (stmt_eqb (lst x) st'); reflexivity. Qed.

Lemma fa_cls : forall fl st' cs, Forall canonical cs -> Forall (cl_ok fl st') cs -> forall p pos,
  find_all_from (kw_match fl (stmt_words st')) (render_cls cs) (Some p) pos 0 = hits st' (locs pos cs).
Proof.
  intros fl st'. set (wl := stmt_words st'). pose proof (stmt_words_ok st') as WO. pose proof (stmt_words_ne st') as NE.
  fold wl in WO, NE. pose proof (words_ok_letters wl WO) as AL.
  induction cs as [|c r IH]; intros CA OK p pos; [reflexivity|].
  inversion CA as [|? ? Cc Cr]; subst. inversion OK as [|? ? [Q H] OKr]; subst.
  cbn [render_cls locs]. rewrite hits_cons. cbn [lst snd].
  unfold render_cl at 1. unfold rc_kw. rewrite Cc.
  replace ((sps (rc_lead c) ++ SP :: kwtext (stmt_words (rc_st c)) (rc_gaps c) ++ sps (S (rc_sp c)) ++ rc_txt c) ++ render_cls r)
    with (sps (rc_lead c) ++ SP :: kwtext (stmt_words (rc_st c)) (rc_gaps c) ++ SP :: (sps (rc_sp c) ++ rc_txt c ++ render_cls r)).
  2:{ rewrite <- !app_assoc. cbn [app]. rewrite <- !app_assoc. reflexivity. }
  assert (TAIL : forall q pos', find_all_from (kw_match fl wl) (SP :: sps (rc_sp c) ++ rc_txt c ++ render_cls r) (Some q) pos' 0
                 = hits st' (locs (pos' + (S (rc_sp c) + length (rc_txt c))) r)).
  { intros q pos'. change (SP :: sps (rc_sp c) ++ rc_txt c ++ render_cls r) with (sps (S (rc_sp c)) ++ rc_txt c ++ render_cls r).
    rewrite app_assoc. rewrite (quiet_find_all_tail fl wl _ _ AL (quiet_sps fl wl _ _ WO NE Q) (render_cls_tail r)).
    rewrite app_length, sps_length. apply (IH Cr OKr). }
  pose proof (render_cl_length c) as LEN. unfold rc_kw in LEN. rewrite Cc in LEN.
  destruct (stmt_eqb (rc_st c) st') eqn:E.
  - apply stmt_eqb_spec in E. rewrite (region_hit fl wl WO NE _ (stmt_words_ok _)) by (rewrite E; apply tok_self).
    rewrite TAIL. unfold hit_of. cbn [fst snd]. f_equal. rewrite LEN. f_equal. f_equal. lia.
  - destruct H as [H|H]; [apply stmt_eqb_spec in H; rewrite H in E; discriminate E|].
    rewrite (region_nohit fl wl WO NE _ (stmt_words_ok _) (stmt_words_ne _) H). rewrite TAIL. rewrite LEN. f_equal. f_equal. lia.
Qed.

(* ------------------------------------------------------------------ the whole text: head word, spaces, head text, clauses *)
Definition render_q (hw : str) (hk : nat) (ht : str) (cs : list rcl) : str :=
  hw ++ sps (S hk) ++ ht ++ render_cls cs.
Definition target (hst : stmt) (hw : str) (hk : nat) (ht : str) (cs : list rcl) : list loc :=
  (0%nat, length hw, hst) :: locs (length hw + (S hk + length ht)) cs.

Lemma nohit_single : forall fl wl W, nohit fl wl [W] = true -> tok_cmp fl wl [W] = Some false.
Proof. intros fl wl W H. cbn [nohit] in H. destruct (tok_cmp fl wl [W]) as [[|]|]; try discriminate H. reflexivity. Qed.

Lemma fa_query : forall fl st' hst hw hk ht cs, stmt_words hst = [hw] ->
  quiet fl (stmt_words st') (SP :: ht) = true ->
  (hst = st' \/ nohit fl (stmt_words st') (stmt_words hst) = true) ->
  Forall canonical cs -> Forall (cl_ok fl st') cs ->
  find_all (kw_match fl (stmt_words st')) (render_q hw hk ht cs) = hits st' (target hst hw hk ht cs).
Proof.
  intros fl st' hst hw hk ht cs HW Q H CA OK.
  pose proof (stmt_words_ok st') as WO. pose proof (stmt_words_ne st') as NE. pose proof (words_ok_letters _ WO) as AL.
  assert (WOK : word_ok hw = true).
  { pose proof (stmt_words_ok hst) as X. rewrite HW in X. cbn [words_ok forallb] in X. apply andb_true_iff in X. exact (proj1 X). }
  unfold render_q, target. rewrite hits_cons. cbn [lst snd].
  change (hw ++ sps (S hk) ++ ht ++ render_cls cs) with (hw ++ SP :: (sps hk ++ ht ++ render_cls cs)).
  assert (TAIL : forall q, find_all_from (kw_match fl (stmt_words st')) (SP :: sps hk ++ ht ++ render_cls cs) (Some q) (length hw) 0
                 = hits st' (locs (length hw + (S hk + length ht)) cs)).
  { intro q. change (SP :: sps hk ++ ht ++ render_cls cs) with (sps (S hk) ++ ht ++ render_cls cs). rewrite app_assoc.
    rewrite (quiet_find_all_tail fl _ _ _ AL (quiet_sps fl _ _ _ WO NE Q) (render_cls_tail cs)).
    rewrite app_length, sps_length. apply (fa_cls fl st' cs CA OK). }
  destruct (stmt_eqb hst st') eqn:E.
  - apply stmt_eqb_spec in E. rewrite (head_hit fl _ WO hw _ WOK) by (rewrite <- E, <- HW; apply tok_self).
    rewrite TAIL. reflexivity.
  - destruct H as [H|H]; [apply stmt_eqb_spec in H; rewrite H in E; discriminate E|].
    rewrite HW in H. rewrite (head_nohit fl _ WO hw _ WOK (nohit_single _ _ _ H)). apply TAIL.
Qed.

(* ------------------------------------------------------------------ the target list is sorted by position *)
Lemma locs_ge : forall cs pos, Forall (fun x => pos <= lstart x) (locs pos cs).
Proof.
  induction cs as [|c r IH]; intro pos; [constructor|]. cbn [locs]. constructor; [unfold lstart; cbn [fst]; lia|].
  eapply Forall_impl; [|apply IH]. cbn beta. intros x Hx. lia.
Qed.

Lemma locs_sorted : forall cs pos, StronglySorted lt_loc (locs pos cs).
Proof.
  induction cs as [|c r IH]; intro pos; [constructor|]. cbn [locs]. constructor; [apply IH|].
  eapply Forall_impl; [|apply locs_ge]. cbn beta. intros x Hx. unfold lt_loc, lstart in *. cbn [fst].
  rewrite render_cl_length in Hx. lia.
Qed.

Lemma target_sorted : forall hst hw hk ht cs, hw <> [] -> StronglySorted lt_loc (target hst hw hk ht cs).
Proof.
  intros hst hw hk ht cs NE. unfold target. constructor; [apply locs_sorted|].
  eapply Forall_impl; [|apply locs_ge]. cbn beta. intros x Hx. unfold lt_loc, lstart in *. cbn [fst].
  destruct hw; [contradiction|]. cbn [length] in *. lia.
Qed.

Lemma locs_sts : forall cs pos, map lst (locs pos cs) = map rc_st cs.
Proof. induction cs as [|c r IH]; intro pos; [reflexivity|]. cbn [locs map]. rewrite IH. reflexivity. Qed.

(* ------------------------------------------------------------------ locate_statements on the rendered text *)
Definition all_stmts (with_from : bool) : list stmt := concat (statement_groups with_from).
(* no statement that locate_statements searches starts after a space of SP :: T, or straddles the end of T *)
Definition quiet_all (fl : lang) (with_from : bool) (T : str) : bool :=
  forallb (fun st' => quiet fl (stmt_words st') (SP :: T)) (all_stmts with_from).

Lemma quiet_all_spec : forall fl wf T, quiet_all fl wf T = true ->
  forall st', (wf = false -> st' <> FROM) -> quiet fl (stmt_words st') (SP :: T) = true.
Proof.
  intros fl wf T H st' NF. unfold quiet_all in H. rewrite forallb_forall in H. apply H.
  destruct wf; [destruct st'; cbn; tauto|].
  destruct st'; cbn; tauto.
Qed.

Theorem locate_render : forall fl wf hst hw hk ht cs,
  stmt_words hst = [hw] ->
  Forall canonical cs ->
  NoDup (map gid (hst :: map rc_st cs)) ->
  (wf = false -> hst <> FROM /\ Forall (fun c => rc_st c <> FROM) cs) ->
  quiet_all fl wf ht = true ->
  Forall (fun c => quiet_all fl wf (rc_txt c) = true) cs ->
  locate_statements fl wf (render_q hw hk ht cs) = Ok (target hst hw hk ht cs).
Proof.
  intros fl wf hst hw hk ht cs HW CA ND NF QH QC.
  assert (STS : map lst (target hst hw hk ht cs) = hst :: map rc_st cs).
  { unfold target. cbn [map lst snd]. rewrite locs_sts. reflexivity. }
  apply locate_of_hits.
  - apply target_sorted. pose proof (stmt_words_ok hst) as X. rewrite HW in X. destruct hw; [discriminate X | discriminate].
  - rewrite <- (map_map lst gid), STS. exact ND.
  - intros E x Ix. destruct (NF E) as [N1 N2]. assert (I2 : In (lst x) (hst :: map rc_st cs)) by (rewrite <- STS; apply in_map; exact Ix).
    destruct I2 as [<-|I2]; [exact N1|]. apply in_map_iff in I2. destruct I2 as [c [<- Ic]]. rewrite Forall_forall in N2. exact (N2 c Ic).
  - intros st' PF SE.
    assert (SE' : forall st, In st (hst :: map rc_st cs) -> st = st' \/ nohit fl (stmt_words st') (stmt_words st) = true).
    { intros st Ist. destruct (stmt_eqb st st') eqn:E; [left; apply stmt_eqb_spec; exact E|]. right.
      rewrite <- STS in Ist. apply in_map_iff in Ist. destruct Ist as [y [<- Iy]].
      apply nohit_table; [intros ->; rewrite (proj2 (stmt_eqb_spec _ _) eq_refl) in E; discriminate E | intros J1 J2; exact (SE y Iy J1 J2)]. }
    apply fa_query; try assumption.
    + apply (quiet_all_spec fl wf ht QH st' PF).
    + apply SE'. left. reflexivity.
    + rewrite Forall_forall in *. intros c Ic. split; [apply (quiet_all_spec fl wf _ (QC c Ic) st' PF)|].
      apply SE'. right. apply in_map. exact Ic.
Qed.
Print Assumptions locate_render.

(* ------------------------------------------------------------------ process_statements on the rendered text *)
Lemma slice_mid : forall (a b c : str), slice (length a) (length a + length b) (a ++ b ++ c) = b.
Proof.
  intros a b c. unfold slice. rewrite skipn_app, Nat.sub_diag, skipn_all. cbn [app skipn].
  replace (length a + length b - length a)%nat with (length b) by lia.
  rewrite firstn_app, Nat.sub_diag, firstn_all. cbn [firstn]. apply app_nil_r.
Qed.

Definition next_lead (r : list rcl) : nat := match r with [] => O | c :: _ => rc_lead c end.
Definition span_of (c : rcl) (r : list rcl) : str := sps (S (rc_sp c)) ++ rc_txt c ++ sps (next_lead r).

Fixpoint proc_cls (fl : lang) (pos : nat) (cs : list rcl) (acc : actions) : res actions :=
  match cs with
  | [] => Ok acc
  | c :: r => match apply_statement fl (rc_st c) (pos + rc_lead c) (span_of c r) acc with
              | Err e => Err e
              | Ok acc' => proc_cls fl (pos + length (render_cl c)) r acc'
              end
  end.

Lemma render_cls_lead : forall r, exists rest, render_cls r = sps (next_lead r) ++ rest.
Proof.
  destruct r as [|c r]; [exists []; reflexivity|]. cbn [render_cls next_lead]. unfold render_cl.
  eexists. rewrite <- app_assoc. reflexivity.
Qed.

Lemma next_start : forall r pos len, (r = [] -> len = pos) ->
  match locs pos r with (x, _, _) :: _ => x | [] => len end = (pos + next_lead r)%nat.
Proof. intros r pos len H. destruct r as [|c r]; cbn [locs next_lead]; [rewrite H by reflexivity; lia | reflexivity]. Qed.

Lemma process_cls : forall fl cs pre acc,
  process_statements fl (pre ++ render_cls cs) (locs (length pre) cs) acc = proc_cls fl (length pre) cs acc.
Proof.
  intros fl. induction cs as [|c r IH]; intros pre acc; [reflexivity|].
  cbn [locs process_statements proc_cls render_cls].
  rewrite (next_start r (length pre + length (render_cl c)) (length (pre ++ render_cl c ++ render_cls r))).
  2:{ intros ->. cbn [render_cls]. rewrite !app_length. cbn [length]. lia. }
  assert (SL : slice (length pre + rc_lead c + S (length (rc_kw c))) (length pre + length (render_cl c) + next_lead r)
                 (pre ++ render_cl c ++ render_cls r) = span_of c r).
  { destruct (render_cls_lead r) as [rest E]. rewrite E. unfold render_cl.
    replace (pre ++ (sps (rc_lead c) ++ SP :: rc_kw c ++ sps (S (rc_sp c)) ++ rc_txt c) ++ sps (next_lead r) ++ rest)
      with ((pre ++ sps (rc_lead c) ++ SP :: rc_kw c) ++ span_of c r ++ rest).
    2:{ unfold span_of. rewrite <- !app_assoc. cbn [app]. rewrite <- !app_assoc. reflexivity. }
    replace (length pre + rc_lead c + S (length (rc_kw c)))%nat with (length (pre ++ sps (rc_lead c) ++ SP :: rc_kw c)).
    2:{ rewrite !app_length. cbn [length]. rewrite sps_length. lia. }
    replace (length pre + length (sps (rc_lead c) ++ SP :: rc_kw c ++ sps (S (rc_sp c)) ++ rc_txt c) + next_lead r)%nat
      with (length (pre ++ sps (rc_lead c) ++ SP :: rc_kw c) + length (span_of c r))%nat.
    2:{ unfold span_of. rewrite !app_length. cbn [length]. rewrite !app_length, !sps_length. lia. }
    apply slice_mid. }
  rewrite SL. destruct (apply_statement fl (rc_st c) (length pre + rc_lead c) (span_of c r) acc) as [acc'|e]; [|reflexivity].
  rewrite app_assoc. rewrite <- (app_length pre (render_cl c)). apply IH.
Qed.

Lemma process_query : forall fl hst hw hk ht cs acc,
  process_statements fl (render_q hw hk ht cs) (target hst hw hk ht cs) acc
  = match apply_statement fl hst 0 (sps (S hk) ++ ht ++ sps (next_lead cs)) acc with
    | Err e => Err e
    | Ok acc' => proc_cls fl (length hw + (S hk + length ht)) cs acc'
    end.
Proof.
  intros fl hst hw hk ht cs acc. unfold target, render_q. cbn [process_statements].
  rewrite (next_start cs _ (length (hw ++ sps (S hk) ++ ht ++ render_cls cs))).
  2:{ intros ->. cbn [render_cls]. rewrite !app_length, sps_length. cbn [length]. lia. }
  assert (SL : slice (length hw) (length hw + (S hk + length ht) + next_lead cs) (hw ++ sps (S hk) ++ ht ++ render_cls cs)
               = sps (S hk) ++ ht ++ sps (next_lead cs)).
  { destruct (render_cls_lead cs) as [rest E]. rewrite E.
    replace (hw ++ sps (S hk) ++ ht ++ sps (next_lead cs) ++ rest) with (hw ++ (sps (S hk) ++ ht ++ sps (next_lead cs)) ++ rest)
      by (rewrite <- !app_assoc; reflexivity).
    replace (length hw + (S hk + length ht) + next_lead cs)%nat with (length hw + length (sps (S hk) ++ ht ++ sps (next_lead cs)))%nat
      by (rewrite !app_length, !sps_length; lia).
    apply slice_mid. }
  rewrite SL. destruct (apply_statement fl hst 0 (sps (S hk) ++ ht ++ sps (next_lead cs)) acc) as [acc'|e]; [|reflexivity].
  replace (length hw + (S hk + length ht))%nat with (length (hw ++ sps (S hk) ++ ht)) by (rewrite !app_length, sps_length; lia).
  replace (hw ++ sps (S hk) ++ ht ++ render_cls cs) with ((hw ++ sps (S hk) ++ ht) ++ render_cls cs) by (rewrite <- !app_assoc; reflexivity).
  apply process_cls.
Qed.
