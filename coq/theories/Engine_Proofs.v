(* Engine_Proofs.v — the main loop of a non-aggregate SELECT feeds exactly the offers of Spec.all_offers
   to the writer chain (C01, C02, C04 downstream), for every expression semantics. *)
From RBQL Require Import Base Value Expr Writers Writers_Proofs Join Agg Engine Spec.

Section Proofs.
Variable expr : Type.
Variable eval : env -> expr -> res val.
Notation query := (query expr).

Lemma chain_feed_app w cfg : forall l1 l2 st,
  chain_feed w cfg st (l1 ++ l2) =
  (if snd (chain_feed w cfg st l1) then chain_feed w cfg (fst (chain_feed w cfg st l1)) l2
   else (fst (chain_feed w cfg st l1), false)).
Proof.
  induction l1 as [|[k r] l1 IH]; intros l2 st; [reflexivity|].
  cbn [app chain_feed]. destruct (chain_write w cfg st k r) as [st' ok]. destruct ok; [apply IH | reflexivity].
Qed.

Lemma bind_ok {T U} (r : res T) (f : T -> res U) v : bind r f = Ok v -> exists x, r = Ok x /\ f x = Ok v.
Proof. destruct r as [x|e]; cbn; intros H; [exists x; split; [reflexivity | assumption] | discriminate]. Qed.

Section Q.
Variable w : nat -> bool.
Variable q : query.
Hypothesis Hagg : is_agg q = false.

Let cfg := cfg_of q.

Definition fed (ls : lstate) (offs : list (key * row)) : lstate :=
  {| l_chain := fst (chain_feed w cfg (l_chain ls) offs); l_agg := l_agg ls; l_nu := l_nu ls |}.
Definition flow_of (ok : bool) : flow := if ok then Continue else Stop.

Lemma process_matches_select nr a : forall ms ls r,
  l_nu ls = 0 ->
  offers_matches expr eval q nr a ms = Ok r ->
  process_matches eval w q ls nr a ms = (fed ls r, flow_of (snd (chain_feed w cfg (l_chain ls) r))).
Proof.
  induction ms as [|b ms IH]; intros ls r Hnu H.
  - cbn in H. injection H as <-. cbn. unfold fed. cbn. destruct ls; reflexivity.
  - cbn [offers_matches] in H. apply bind_ok in H. destruct H as [r1 [H1 H]].
    apply bind_ok in H. destruct H as [r2 [H2 H]]. injection H as <-.
    cbn [process_matches]. unfold process_select. rewrite Hagg. rewrite Hnu.
    unfold env_of in H1. rewrite H1. unfold write_rows. fold cfg.
    rewrite chain_feed_app. destruct (chain_feed w cfg (l_chain ls) r1) as [st1 ok1] eqn:E1. cbn [fst snd].
    destruct ok1.
    + cbn [flow_of]. rewrite (IH {| l_chain := st1; l_agg := l_agg ls; l_nu := 0 |} r2 eq_refl H2). unfold fed. cbn [l_chain l_agg l_nu].
      rewrite chain_feed_app, E1. cbn [fst snd]. rewrite Hnu. reflexivity.
    + unfold fed, flow_of. cbn [l_chain l_agg l_nu]. rewrite chain_feed_app, E1. cbn [fst snd]. rewrite Hnu. reflexivity.
Qed.

Hypothesis Hupd : is_update q = false.

Lemma process_record_select jm ls nr a ms r :
  l_nu ls = 0 ->
  matches_of expr q jm nr a = Ok ms ->
  offers_matches expr eval q nr a ms = Ok r ->
  process_record eval w q jm ls nr a = (fed ls r, flow_of (snd (chain_feed w cfg (l_chain ls) r))).
Proof.
  intros Hnu Hm Ho. unfold process_record. unfold is_update in Hupd. unfold matches_of in Hm.
  destruct (q_kind q) eqn:Ek; try discriminate.
  - destruct (q_join q) as [js|]; [destruct jm as [m|]|].
    + rewrite Hm. apply process_matches_select; assumption.
    + injection Hm as <-. apply process_matches_select; assumption.
    + injection Hm as <-. apply process_matches_select; assumption.
  - destruct (q_join q) as [js|]; [destruct jm as [m|]|].
    + rewrite Hm. apply process_matches_select; assumption.
    + injection Hm as <-. apply process_matches_select; assumption.
    + injection Hm as <-. apply process_matches_select; assumption.
Qed.

Lemma main_loop_select jm : forall A ls nr offs,
  l_nu ls = 0 ->
  all_offers expr eval q jm nr A = Ok offs ->
  exists nr', main_loop eval w q jm ls nr A = (fed ls offs, nr', None)
              /\ nr' <= nr + length A
              /\ (snd (chain_feed w cfg (l_chain ls) offs) = true -> nr' = nr + length A).
Proof.
  induction A as [|a A IH]; intros ls nr offs Hnu H.
  - cbn in H. injection H as <-. exists nr. cbn. unfold fed. cbn. split; [destruct ls; reflexivity | split; [lia | intros _; lia]].
  - cbn [all_offers] in H. apply bind_ok in H. destruct H as [ms [Hm H]].
    apply bind_ok in H. destruct H as [r [Hr H]]. apply bind_ok in H. destruct H as [rs [Hrs H]]. injection H as <-.
    cbn [main_loop]. rewrite (process_record_select jm ls (S nr) a ms r Hnu Hm Hr).
    destruct (chain_feed w cfg (l_chain ls) r) as [st1 ok1] eqn:E1. cbn [snd]. destruct ok1; cbn [flow_of].
    + destruct (IH (fed ls r) (S nr) rs Hnu Hrs) as [nr' [L1 [L2 L3]]]. exists nr'. rewrite L1. split; [|split].
      * f_equal. f_equal. unfold fed. cbn [l_chain l_agg l_nu]. rewrite chain_feed_app, E1. reflexivity.
      * cbn [length]. lia.
      * intros Hs. cbn [length]. rewrite chain_feed_app, E1 in Hs. cbn [fst snd] in Hs.
        unfold fed in L3. cbn [l_chain] in L3. rewrite E1 in L3. cbn [fst] in L3. rewrite (L3 Hs). lia.
    + exists (S nr). split; [|split].
      * f_equal. f_equal. unfold fed. cbn [l_chain]. rewrite chain_feed_app, E1. reflexivity.
      * cbn [length]. lia.
      * intros Hs. rewrite chain_feed_app, E1 in Hs. discriminate.
Qed.

(* a record whose evaluation fails: the rows of its earlier matches are written, then the failure is raised *)
Lemma process_matches_error nr a : forall ms ls part e,
  l_nu ls = 0 ->
  offers_until_error expr eval q nr a ms = (part, Some e) ->
  snd (chain_feed w cfg (l_chain ls) part) = true ->
  process_matches eval w q ls nr a ms = (fed ls part, Fail e).
Proof.
  induction ms as [|b ms IH]; intros ls part e Hnu H Hs; [discriminate|].
  cbn [offers_until_error] in H. cbn [process_matches]. unfold process_select. rewrite Hagg, Hnu. unfold env_of in H.
  destruct (select_rows eval q _) as [r|e1] eqn:E1.
  - destruct (offers_until_error expr eval q nr a ms) as [rs e2] eqn:E2. injection H as <- ->.
    unfold write_rows. fold cfg. rewrite chain_feed_app in Hs.
    destruct (chain_feed w cfg (l_chain ls) r) as [st1 ok1] eqn:F1. cbn [fst snd] in Hs. destruct ok1; [|discriminate].
    rewrite (IH {| l_chain := st1; l_agg := l_agg ls; l_nu := 0 |} rs e eq_refl eq_refl Hs).
    unfold fed. cbn [l_chain l_agg l_nu]. rewrite chain_feed_app, F1. cbn [fst snd]. rewrite Hnu. reflexivity.
  - injection H as <- <-. unfold fed. cbn. destruct ls; cbn in *; subst; reflexivity.
Qed.

Lemma process_record_error jm ls nr a part e :
  l_nu ls = 0 ->
  record_until_error expr eval q jm nr a = (part, Some e) ->
  snd (chain_feed w cfg (l_chain ls) part) = true ->
  process_record eval w q jm ls nr a = (fed ls part, Fail e).
Proof.
  intros Hnu H Hs. unfold record_until_error, matches_of in H. unfold process_record. unfold is_update in Hupd.
  assert (Hfed : fed ls [] = ls) by (unfold fed; cbn; destruct ls; reflexivity).
  destruct (q_kind q) eqn:Ek; try discriminate.
  - destruct (q_join q) as [js|]; [destruct jm as [m|]|].
    + destruct (bind _ _) as [ms|e1]; [apply process_matches_error; assumption|]. injection H as <- <-. rewrite Hfed. reflexivity.
    + apply process_matches_error; assumption.
    + apply process_matches_error; assumption.
  - destruct (q_join q) as [js|]; [destruct jm as [m|]|].
    + destruct (bind _ _) as [ms|e1]; [apply process_matches_error; assumption|]. injection H as <- <-. rewrite Hfed. reflexivity.
    + apply process_matches_error; assumption.
    + apply process_matches_error; assumption.
Qed.

Lemma main_loop_first_offender jm : forall A1 ls nr offs1 a A2 part e,
  l_nu ls = 0 ->
  all_offers expr eval q jm nr A1 = Ok offs1 ->
  record_until_error expr eval q jm (S (nr + length A1)) a = (part, Some e) ->
  snd (chain_feed w cfg (l_chain ls) (offs1 ++ part)) = true ->
  main_loop eval w q jm ls nr (A1 ++ a :: A2) =
    (fed ls (offs1 ++ part), S (nr + length A1), Some (classify (S (nr + length A1)) e)).
Proof.
  induction A1 as [|a1 A1 IH]; intros ls nr offs1 a A2 part e Hnu H He Hs.
  - cbn in H. injection H as <-. cbn [app length] in *. rewrite Nat.add_0_r in *. cbn [main_loop].
    rewrite (process_record_error jm ls (S nr) a part e Hnu He Hs). reflexivity.
  - cbn [all_offers] in H. apply bind_ok in H. destruct H as [ms [Hm H]].
    apply bind_ok in H. destruct H as [r [Hr H]]. apply bind_ok in H. destruct H as [rs [Hrs H]]. injection H as <-.
    cbn [app main_loop]. rewrite (process_record_select jm ls (S nr) a1 ms r Hnu Hm Hr).
    rewrite <- app_assoc in Hs. rewrite chain_feed_app in Hs.
    destruct (chain_feed w cfg (l_chain ls) r) as [st1 ok1] eqn:E1. cbn [fst snd] in Hs. destruct ok1; [|discriminate]. cbn [snd flow_of].
    cbn [length] in *. replace (S (nr + S (length A1))) with (S (S nr + length A1)) in * by lia.
    rewrite (IH (fed ls r) (S nr) rs a A2 part e Hnu Hrs He).
    + assert (Hf : fed (fed ls r) (rs ++ part) = fed ls ((r ++ rs) ++ part)).
      { unfold fed. cbn [l_chain l_agg l_nu]. rewrite <- app_assoc, (chain_feed_app w cfg r), E1. reflexivity. }
      rewrite Hf. reflexivity.
    + unfold fed. cbn [l_chain]. rewrite E1. exact Hs.
Qed.

(* once the chain has refused a row, the rest of the input is never pulled *)
Lemma main_loop_app_stop jm : forall A1 ls nr offs1,
  l_nu ls = 0 ->
  all_offers expr eval q jm nr A1 = Ok offs1 ->
  snd (chain_feed w cfg (l_chain ls) offs1) = false ->
  forall A2, main_loop eval w q jm ls nr (A1 ++ A2) = main_loop eval w q jm ls nr A1.
Proof.
  induction A1 as [|a A1 IH]; intros ls nr offs1 Hnu H Hs A2.
  - cbn in H. injection H as <-. cbn in Hs. discriminate.
  - cbn [all_offers] in H. apply bind_ok in H. destruct H as [ms [Hm H]].
    apply bind_ok in H. destruct H as [r [Hr H]]. apply bind_ok in H. destruct H as [rs [Hrs H]]. injection H as <-.
    cbn [app main_loop]. rewrite (process_record_select jm ls (S nr) a ms r Hnu Hm Hr).
    rewrite chain_feed_app in Hs.
    destruct (chain_feed w cfg (l_chain ls) r) as [st1 ok1] eqn:E1. cbn [fst snd] in *. destruct ok1; cbn [flow_of].
    + apply (IH (fed ls r) (S nr) rs Hnu Hrs). unfold fed. cbn [l_chain]. rewrite E1. exact Hs.
    + reflexivity.
Qed.

End Q.

(* the run of a non-aggregate SELECT whose evaluations all succeed *)
Theorem run_select w (q : query) hdr A B jm offs :
  is_agg q = false -> is_update q = false -> static_check q = None ->
  join_map_of expr q B = Some jm ->
  all_offers expr eval q jm 0 A = Ok offs ->
  let o := run eval w q hdr A B in
  o_error o = None
  /\ o_chain o = chain_finish w (cfg_of q) (fst (chain_feed w (cfg_of q) (set_header chain_init hdr) offs))
  /\ o_pulls o <= length A
  /\ (snd (chain_feed w (cfg_of q) (set_header chain_init hdr) offs) = true -> o_pulls o = length A).
Proof.
  intros Hagg Hupd Hst Hjm Hoff. unfold run. rewrite Hst. unfold join_map_of in Hjm.
  set (ls0 := {| l_chain := set_header chain_init hdr; l_agg := None; l_nu := 0 |}).
  assert (Hnu : l_nu ls0 = 0) by reflexivity.
  destruct (q_join q) as [js|] eqn:Ej.
  - destruct (build (j_rhs js) B) as [m|bnr] eqn:Eb; [|discriminate]. injection Hjm as <-.
    destruct (main_loop_select w q Hagg Hupd (Some (widen (j_bhdr js) m)) A ls0 0 offs Hnu Hoff) as [nr' [L1 [L2 L3]]].
    rewrite L1. cbn [finish fed l_agg l_chain ls0 o_error o_chain o_pulls]. cbn in L2, L3. repeat split; auto.
  - injection Hjm as <-.
    destruct (main_loop_select w q Hagg Hupd None A ls0 0 offs Hnu Hoff) as [nr' [L1 [L2 L3]]].
    rewrite L1. cbn [finish fed l_agg l_chain ls0 o_error o_chain o_pulls]. cbn in L2, L3. repeat split; auto.
Qed.

(* the first record whose evaluation fails stops the query: it is reported with that record's number, the rows
   emitted before the failing evaluation have been written, finish() is not called *)
Theorem run_select_first_offender w (q : query) hdr A1 a A2 B jm offs1 part e :
  is_agg q = false -> is_update q = false -> static_check q = None ->
  join_map_of expr q B = Some jm ->
  all_offers expr eval q jm 0 A1 = Ok offs1 ->
  record_until_error expr eval q jm (S (length A1)) a = (part, Some e) ->
  snd (chain_feed w (cfg_of q) (set_header chain_init hdr) (offs1 ++ part)) = true ->
  let o := run eval w q hdr (A1 ++ a :: A2) B in
  o_error o = Some (classify (S (length A1)) e)
  /\ o_chain o = fst (chain_feed w (cfg_of q) (set_header chain_init hdr) (offs1 ++ part))
  /\ o_pulls o = S (length A1).
Proof.
  intros Hagg Hupd Hst Hjm Hoff He Hs. unfold run. rewrite Hst. unfold join_map_of in Hjm.
  set (ls0 := {| l_chain := set_header chain_init hdr; l_agg := None; l_nu := 0 |}).
  destruct (q_join q) as [js|] eqn:Ej.
  - destruct (build (j_rhs js) B) as [m|bnr] eqn:Eb; [|discriminate]. injection Hjm as <-.
    rewrite (main_loop_first_offender w q Hagg Hupd (Some (widen (j_bhdr js) m)) A1 ls0 0 offs1 a A2 part e eq_refl Hoff He Hs).
    cbn. repeat split.
  - injection Hjm as <-.
    rewrite (main_loop_first_offender w q Hagg Hupd None A1 ls0 0 offs1 a A2 part e eq_refl Hoff He Hs).
    cbn. repeat split.
Qed.

(* with a writer that never refuses, the output is the chain specification applied to the offers *)
Corollary run_select_rows (q : query) hdr A B jm offs :
  is_agg q = false -> is_update q = false -> static_check q = None ->
  join_map_of expr q B = Some jm ->
  all_offers expr eval q jm 0 A = Ok offs ->
  let o := run eval yes q hdr A B in
  o_error o = None /\ written (o_chain o) = chain_spec (cfg_of q) offs.
Proof.
  intros Hagg Hupd Hst Hjm Hoff o.
  destruct (run_select yes q hdr A B jm offs Hagg Hupd Hst Hjm Hoff) as [H1 [H2 _]].
  split; [exact H1|]. fold o in H2. rewrite H2.
  rewrite (chain_correct (cfg_of q) offs (set_header chain_init hdr)); [|repeat split].
  rewrite written_set_header. reflexivity.
Qed.

(* all_offers, when it succeeds, is the comprehension over records and their matches *)
Lemma offers_matches_flat (q : query) nr a : forall ms r,
  offers_matches expr eval q nr a ms = Ok r ->
  r = flat_map (fun b => rows_or_nil (select_rows eval q (env_of nr a b 0))) ms.
Proof.
  induction ms as [|b ms IH]; intros r H.
  - cbn in H. injection H as <-. reflexivity.
  - cbn [offers_matches] in H. apply bind_ok in H. destruct H as [r1 [H1 H]].
    apply bind_ok in H. destruct H as [r2 [H2 H]]. injection H as <-.
    cbn [flat_map]. rewrite H1. cbn [rows_or_nil]. rewrite (IH r2 H2). reflexivity.
Qed.

Lemma all_offers_flat (q : query) jm : forall A nr offs,
  all_offers expr eval q jm nr A = Ok offs ->
  offs = flat_map (fun '(nr, a) =>
              flat_map (fun b => rows_or_nil (select_rows eval q (env_of nr a b 0)))
                       (rows_or_nil (matches_of expr q jm nr a)))
           (number_from nr A).
Proof.
  induction A as [|a A IH]; intros nr offs H.
  - cbn in H. injection H as <-. reflexivity.
  - cbn [all_offers] in H. apply bind_ok in H. destruct H as [ms [Hm H]].
    apply bind_ok in H. destruct H as [r [Hr H]]. apply bind_ok in H. destruct H as [rs [Hrs H]]. injection H as <-.
    cbn [number_from flat_map]. rewrite Hm. cbn [rows_or_nil]. rewrite <- (offers_matches_flat q (S nr) a ms r Hr).
    rewrite (IH (S nr) rs Hrs). reflexivity.
Qed.

(* TOP n without ORDER BY / DISTINCT: the writer refuses the (n+1)-th offered row *)
Lemma top_refuses cfg n : c_top cfg = Some n -> c_order cfg = None -> c_distinct cfg = DNo ->
  forall offs st, s_NW st <= n -> n - s_NW st < length offs -> snd (chain_feed yes cfg st offs) = false.
Proof.
  intros Ht Ho Hd. induction offs as [|[k r] offs IH]; intros st Hle Hlen; [cbn in Hlen; lia|].
  cbn [chain_feed]. unfold chain_write. rewrite Ho. unfold uniq_write. rewrite Hd. unfold top_write. rewrite Ht.
  destruct (Nat.leb n (s_NW st)) eqn:E; [reflexivity|]. apply Nat.leb_gt in E.
  unfold base_write, yes. cbn [fst snd].
  apply IH; cbn [s_NW length] in *; lia.
Qed.

Theorem run_top_early_stop (q : query) hdr A1 B jm offs1 n :
  is_agg q = false -> is_update q = false -> static_check q = None ->
  q_top q = Some n -> q_order q = None -> q_distinct q = DNo ->
  join_map_of expr q B = Some jm ->
  all_offers expr eval q jm 0 A1 = Ok offs1 ->
  n < length offs1 ->
  forall A2,
    run eval yes q hdr (A1 ++ A2) B = run eval yes q hdr A1 B
    /\ o_pulls (run eval yes q hdr (A1 ++ A2) B) <= length A1
    /\ o_error (run eval yes q hdr (A1 ++ A2) B) = None
    /\ written (o_chain (run eval yes q hdr (A1 ++ A2) B)) = firstn n (map snd offs1).
Proof.
  intros Hagg Hupd Hst Ht Ho Hd Hjm Hoff Hlen A2.
  assert (Hcfg : c_top (cfg_of q) = Some n /\ c_order (cfg_of q) = None /\ c_distinct (cfg_of q) = DNo).
  { unfold cfg_of. rewrite Ht, Ho, Hd. repeat split. }
  destruct Hcfg as [C1 [C2 C3]].
  assert (Hrun : run eval yes q hdr (A1 ++ A2) B = run eval yes q hdr A1 B).
  { unfold run. rewrite Hst. unfold join_map_of in Hjm.
    set (ls0 := {| l_chain := set_header chain_init hdr; l_agg := None; l_nu := 0 |}).
    assert (Hs : snd (chain_feed yes (cfg_of q) (l_chain ls0) offs1) = false).
    { apply (top_refuses (cfg_of q) n C1 C2 C3); cbn; lia. }
    destruct (q_join q) as [js|] eqn:Ej.
    - destruct (build (j_rhs js) B) as [m|bnr] eqn:Eb; [|discriminate]. injection Hjm as <-.
      rewrite (main_loop_app_stop yes q Hagg Hupd (Some (widen (j_bhdr js) m)) A1 ls0 0 offs1 eq_refl Hoff Hs A2). reflexivity.
    - injection Hjm as <-.
      rewrite (main_loop_app_stop yes q Hagg Hupd None A1 ls0 0 offs1 eq_refl Hoff Hs A2). reflexivity. }
  rewrite Hrun. split; [reflexivity|].
  destruct (run_select yes q hdr A1 B jm offs1 Hagg Hupd Hst Hjm Hoff) as [H1 [H2 [H3 _]]].
  destruct (run_select_rows q hdr A1 B jm offs1 Hagg Hupd Hst Hjm Hoff) as [_ H5].
  split; [exact H3|]. split; [exact H1|]. rewrite H5. unfold chain_spec. rewrite C1, C2, C3. reflexivity.
Qed.

End Proofs.
