(* Extract.v — extraction of the model's entry point. ExtrOcamlBasic only; N, nat, Z, positive
   remain the extracted inductive types. No Extract Constant / Extract Inductive of our own. *)
From Coq Require Import ExtrOcamlBasic.
From RBQL Require Import Base Sx Entry.
Extraction "model.ml" dispatch.
