(* Table_Proofs.v — the TABLE-LEVEL round trip: writer model (CsvWriter / join_line_fl) -> text (every line followed by
   LF or CRLF) -> line splitter (Lines.split_lines) -> reader specification (Reader.records_of_text) with the real field
   splitter Csv.smart_split.

   Main results
     lines_of_written(_gen)     (TableLines_Proofs) the physical lines of the emitted text
     records_of_lines_clean     the reader specification on lines whose logical rows all split without warning
     table_roundtrip            policies simple / quoted / whitespace / monocolumn
     table_roundtrip_rfc        policy quoted_rfc: CR / CRLF inside fields come back as LF (map (map nl_norm) rows)
     table_roundtrip_any        both, in the shape EntryCsv code 120 uses: map (map nl_norm) rows
     write_table_lines          the lines of write_table are join_line_fl of the normalised rows
     writer_reader_roundtrip    write_table followed by records_of_text
     table_roundtrip_nl_dlm_refuted   good_dlm && table_ok is NOT enough: a delimiter containing LF / CR breaks every
                                policy but monocolumn (extra hypothesis dlm_nl_free)
     fields_warning_iff         the "inconsistent number of fields" warning is absent iff all rows have the same length *)
From RBQL Require Import Base Lines Csv CsvSpec CsvWriter Reader CsvStr_Proofs Csv_Proofs CsvRoundtrip_Proofs Reader_Proofs TableLines_Proofs.

(* ------------------------------------------------------------------ small character facts *)

Lemma QT_ne_LF : QT <> LF. Proof. discriminate. Qed.
Lemma QT_ne_CR : QT <> CR. Proof. discriminate. Qed.
Lemma CR_ne_QT : CR <> QT. Proof. discriminate. Qed.
Lemma LF_ne_QT : LF <> QT. Proof. discriminate. Qed.
Lemma LF_ne_CR : LF <> CR. Proof. discriminate. Qed.

(* ------------------------------------------------------------------ the reader specification on clean input *)

(* encoding argument of the reader <-> the code used by CsvSpec.bom_prefix / table_ok *)
Definition enc_code (e : enc) : N := match e with EncNone => 0 | EncUtf8 => 1 | EncLatin1 => 2 end.

(* fields_info after reading records with the given numbers of fields *)
Fixpoint finfo_run (nr : nat) (finfo : list (nat * nat)) (lens : list nat) : list (nat * nat) :=
  match lens with
  | [] => finfo
  | n :: r => finfo_run (S nr) (fields_info_add finfo n (S nr)) r
  end.

(* the result of a clean read: records (and header), no BOM, no defective line, NL physical lines, NR = number of rows *)
Definition ok_result (c : cfg) (recs : list (list str)) (nl : nat) : result :=
  ROk (if effective_header c then tl recs else recs) (if effective_header c then hd_error recs else None)
      (mk_warnings false None (finfo_run 0 [] (map (@length str) recs))) nl (length recs).

Section Clean.
  Variable split : str -> list str * bool.

  Lemma parse_rows_clean c : forall lrows recs nr fdl finfo,
    Forall2 (fun l r => split l = (r, false)) (map fst lrows) recs ->
    parse_rows split c nr fdl finfo lrows = inl (recs, (nr + length recs, fdl, finfo_run nr finfo (map (@length str) recs)))%nat.
  Proof.
    induction lrows as [|[line nl] lr IH]; intros recs nr fdl finfo H; cbn [map fst] in H; inversion H as [|? r ? rs Hs Hr]; subst.
    - cbn [parse_rows length map finfo_run]. rewrite Nat.add_0_r. reflexivity.
    - cbn [parse_rows]. rewrite Hs. cbn [andb]. rewrite (IH rs _ _ _ Hr).
      cbn [length map finfo_run]. rewrite Nat.add_succ_comm. reflexivity.
  Qed.

  Lemma filter_no_comment c (lrows : list (str * nat)) :
    Forall (fun l => is_comment c l = false) (map fst lrows) ->
    filter (fun r => negb (is_comment c (fst r))) lrows = lrows.
  Proof.
    induction lrows as [|x lr IH]; intros H; [reflexivity|]. cbn [map] in H. inversion H as [|? ? Hx Hr]; subst.
    cbn [filter]. rewrite Hx. cbn [negb]. rewrite (IH Hr). reflexivity.
  Qed.

  Theorem records_of_lines_clean c lines llines recs :
    strip_bom_first (c_enc c) lines = (lines, false) ->
    map fst (logical_rows c lines) = llines ->
    Forall (fun l => is_comment c l = false) llines ->
    Forall2 (fun l r => split l = (r, false)) llines recs ->
    records_of_lines split c lines = ok_result c recs (length lines).
  Proof.
    intros Hb Hl Hc Hs. subst llines. unfold records_of_lines. rewrite Hb.
    rewrite (filter_no_comment c _ Hc), (parse_rows_clean c _ recs 0%nat None [] Hs). reflexivity.
  Qed.
End Clean.

(* ------------------------------------------------------------------ byte order mark *)

Lemma remove_bom_prefix e h b : bom_prefix (enc_code e) (h ++ b) = false -> remove_utf8_bom h e = h.
Proof.
  destruct e; cbn [enc_code]; unfold bom_prefix; intros H.
  - reflexivity.
  - change (N.eqb 1 1) with true in H. cbv iota in H. destruct h as [|a t]; [reflexivity|].
    cbn [app starts_with] in H. rewrite andb_true_r in H. cbn [remove_utf8_bom]. rewrite N.eqb_sym, H. reflexivity.
  - change (N.eqb 2 1) with false in H. change (N.eqb 2 2) with true in H. cbv iota in H.
    destruct h as [|a [|b' [|c' t]]]; try reflexivity.
    cbn [app starts_with] in H. rewrite andb_true_r in H. cbn [remove_utf8_bom].
    rewrite (N.eqb_sym a), (N.eqb_sym b'), (N.eqb_sym c'), <- andb_assoc, H. reflexivity.
Qed.

Lemma strip_bom_clean e W rest : bom_prefix (enc_code e) W = false ->
  strip_bom_first e (cut W ++ rest) = (cut W ++ rest, false).
Proof.
  intros H. destruct (cut_hd_prefix W) as [b Hb]. pose proof (cut_nonnil W) as Hn.
  destruct (cut W) as [|h r]; [congruence|]. cbn [hd] in Hb. rewrite Hb in H.
  cbn [app strip_bom_first]. rewrite (remove_bom_prefix e h b H), str_eqb_refl. reflexivity.
Qed.

(* ------------------------------------------------------------------ written lines without line breaks *)

Definition is_rfc (pol : policy) : bool := match pol with QuotedRfc => true | _ => false end.

(* NOT implied by good_dlm / table_ok (see table_roundtrip_nl_dlm_refuted): the delimiter has no LF and no CR
   (monocolumn never writes the delimiter) *)
(* dlm_nl_free is defined in CsvSpec.v *)

(* for whitespace (the delimiter is one space) and monocolumn it follows from good_dlm *)
Lemma good_dlm_nl_free pol dlm : pol = Whitespace \/ pol = Monocolumn -> good_dlm pol dlm = true -> dlm_nl_free pol dlm = true.
Proof.
  intros [->| ->] G; [|reflexivity]. cbn [good_dlm] in G. apply dlm_is_space_iff in G. subst dlm. reflexivity.
Qed.

Definition written (fl : lang) (pol : policy) (dlm : str) (rows : list (list str)) : list str :=
  map (join_line_fl fl pol dlm) rows.

(* no record, as the reader sees it, starts with the comment prefix (always true without a comment prefix) *)
Definition no_comment_rows (c : cfg) (lines : list str) : bool :=
  forallb (fun l => negb (is_comment c (nl_norm l))) lines.

Lemma no_comment_none c lines : c_comment c = None -> no_comment_rows c lines = true.
Proof.
  intros H. unfold no_comment_rows. apply forallb_forall. intros l _. unfold is_comment, eff_comment. rewrite H. reflexivity.
Qed.

Lemma hasnl_join dlm fs : hasnl dlm = false -> Forall (fun f => hasnl f = false) fs -> hasnl (join dlm fs) = false.
Proof.
  intros Hd H. induction H as [|f r Hf Hr IH]; [reflexivity|]. destruct r as [|g r]; [exact Hf|].
  rewrite join_cons by discriminate. rewrite !hasnl_app, Hf, Hd, IH. reflexivity.
Qed.

Lemma double_qt f : double (QT :: f) = QT :: QT :: double f.
Proof. reflexivity. Qed.

Lemma double_nq c f : c <> QT -> double (c :: f) = c :: double f.
Proof. intros H. rewrite double_cons, (neqb_neq _ _ H). reflexivity. Qed.

Lemma hasnl_double f : hasnl (double f) = hasnl f.
Proof.
  induction f as [|c f IH]; [reflexivity|]. destruct (N.eq_dec c QT) as [->|Hc].
  - rewrite double_qt, !hasnl_cons, IH. reflexivity.
  - rewrite (double_nq _ _ Hc), !hasnl_cons, IH. reflexivity.
Qed.

Lemma hasnl_wrap s : hasnl (wrap s) = hasnl s.
Proof. unfold wrap. rewrite hasnl_cons, hasnl_app. cbn. rewrite orb_false_r. reflexivity. Qed.

Lemma hasnl_qrender q f : hasnl (qrender q f) = hasnl f.
Proof. unfold qrender. destruct (q f); [rewrite hasnl_wrap, hasnl_double|]; reflexivity. Qed.

Lemma newline_ok_plain pol fs : pol <> QuotedRfc -> newline_ok pol fs = true -> Forall (fun f => hasnl f = false) fs.
Proof.
  intros Hp H. assert (forallb (fun f => negb (CsvSpec.has_newline f)) fs = true) as H' by (destruct pol; [exact H|exact H|congruence|exact H|exact H]).
  apply Forall_forall. intros f Hf. rewrite forallb_forall in H'. specialize (H' f Hf). rewrite hasnl_spec in H'.
  apply negb_true_iff. exact H'.
Qed.

Lemma dlm_nl_free_hasnl pol dlm : pol <> Monocolumn -> dlm_nl_free pol dlm = true -> hasnl dlm = false.
Proof. intros Hp H. rewrite <- hasnl_spec. apply negb_true_iff. destruct pol; [exact H|exact H|exact H|exact H|congruence]. Qed.

Lemma join_line_quoted_render fl dlm fs :
  join_line_fl fl Quoted dlm fs = join dlm (map (qrender (gets_quoted Quoted dlm)) fs).
Proof.
  unfold join_line_fl, quote_fields. f_equal. apply map_ext. intros f. rewrite quote_field_lang. apply quote_field_py_render.
Qed.

Lemma join_line_rfc_render fl dlm fs :
  join_line_fl fl QuotedRfc dlm fs = join dlm (map (qrender (gets_quoted QuotedRfc dlm)) fs).
Proof.
  unfold join_line_fl, quote_fields. f_equal. apply map_ext. intros f. rewrite quote_field_lang. apply rfc_quote_field_py_render.
Qed.

Lemma Forall_map_hasnl (g : str -> str) fs : (forall f, hasnl (g f) = hasnl f) ->
  Forall (fun f => hasnl f = false) fs -> Forall (fun f => hasnl f = false) (map g fs).
Proof. intros Hg H. induction H as [|f r Hf Hr IH]; cbn [map]; constructor; [rewrite Hg; exact Hf|exact IH]. Qed.

Lemma written_plain fl pol dlm fs : pol <> QuotedRfc -> dlm_nl_free pol dlm = true -> representable pol dlm fs = true ->
  hasnl (join_line_fl fl pol dlm fs) = false /\ Forall (fun f => hasnl f = false) fs.
Proof.
  intros Hp Hd H. unfold representable in H. apply andb_true_iff in H. destruct H as [Hl Hn].
  pose proof (newline_ok_plain pol fs Hp Hn) as Hf. split; [|exact Hf].
  destruct pol.
  - cbn [join_line_fl quote_fields]. apply hasnl_join; [apply (dlm_nl_free_hasnl Simple); [discriminate|exact Hd]|exact Hf].
  - rewrite join_line_quoted_render. apply hasnl_join; [apply (dlm_nl_free_hasnl Quoted); [discriminate|exact Hd]|].
    apply Forall_map_hasnl; [apply hasnl_qrender|exact Hf].
  - congruence.
  - cbn [join_line_fl quote_fields]. apply hasnl_join; [apply (dlm_nl_free_hasnl Whitespace); [discriminate|exact Hd]|exact Hf].
  - cbn [line_ok] in Hl. destruct fs as [|f [|g fs]]; try discriminate. cbn [join_line_fl hd]. inversion Hf; assumption.
Qed.

Lemma map_nl_norm_plain fs : Forall (fun f => hasnl f = false) fs -> map nl_norm fs = fs.
Proof. intros H. induction H as [|f r Hf Hr IH]; [reflexivity|]. cbn [map]. rewrite (nl_norm_plain _ Hf), IH. reflexivity. Qed.

(* ------------------------------------------------------------------ table_ok, unpacked *)

Lemma table_ok_rows pol dlm enc rows : table_ok pol dlm enc rows = true -> Forall (fun r => representable pol dlm r = true) rows.
Proof.
  unfold table_ok. intros H. apply andb_true_iff in H. destruct H as [H _]. apply Forall_forall. intros r Hr.
  rewrite forallb_forall in H. exact (H r Hr).
Qed.

Lemma table_ok_bom fl pol dlm enc r rows : table_ok pol dlm enc (r :: rows) = true -> bom_prefix enc (join_line_fl fl pol dlm r) = false.
Proof.
  unfold table_ok. intros H. apply andb_true_iff in H. destruct H as [_ H]. apply negb_true_iff in H.
  rewrite join_line_lang. exact H.
Qed.

Lemma no_comment_rows_Forall c lines : no_comment_rows c lines = true -> Forall (fun l => is_comment c (nl_norm l) = false) lines.
Proof.
  unfold no_comment_rows. intros H. apply Forall_forall. intros l Hl. rewrite forallb_forall in H. specialize (H l Hl).
  apply negb_true_iff. exact H.
Qed.

(* ------------------------------------------------------------------ Theorem 2: simple / quoted / whitespace / monocolumn *)

Theorem table_roundtrip fl pol dlm ls c rows :
  pol <> QuotedRfc -> c_rfc c = false -> line_sep ls ->
  good_dlm pol dlm = true -> dlm_nl_free pol dlm = true ->
  table_ok pol dlm (enc_code (c_enc c)) rows = true ->
  no_comment_rows c (written fl pol dlm rows) = true ->
  records_of_text (smart_split pol dlm false) c (emit ls (written fl pol dlm rows)) = ok_result c rows (length rows).
Proof.
  intros Hp Hrfc Hls G Hd Hok Hcm. pose proof (table_ok_rows _ _ _ _ Hok) as Hrows.
  assert (Forall (fun l => hasnl l = false) (written fl pol dlm rows)) as Hplain.
  { unfold written. clear Hok Hcm. induction Hrows as [|r rs Hr Hrs IH]; cbn [map]; constructor; [|exact IH].
    apply (written_plain fl pol dlm r Hp Hd Hr). }
  unfold records_of_text. rewrite (lines_of_written ls _ Hls Hplain).
  assert (length rows = length (written fl pol dlm rows)) as El by (unfold written; symmetry; apply map_length). rewrite El.
  apply (records_of_lines_clean _ c _ (written fl pol dlm rows)).
  - destruct rows as [|r rs]; [reflexivity|]. pose proof (table_ok_bom fl _ _ _ _ _ Hok) as Hb.
    unfold written in *. cbn [map] in *. inversion Hplain as [|? ? Hr _]; subst.
    pose proof (strip_bom_clean (c_enc c) _ (map (join_line_fl fl pol dlm) rs) Hb) as S.
    rewrite (cut_plain _ Hr) in S. exact S.
  - unfold logical_rows. rewrite Hrfc. apply map_fst_number_from.
  - apply no_comment_rows_Forall in Hcm. clear Hok El. induction Hcm as [|l r Hl Hr IH]; [constructor|].
    inversion Hplain as [|? ? Pl Pr]; subst. constructor; [|exact (IH Pr)]. rewrite (nl_norm_plain _ Pl) in Hl. exact Hl.
  - unfold written. clear Hok Hcm Hplain El. induction Hrows as [|r rs Hr Hrs IH]; cbn [map]; constructor; [|exact IH].
    apply representable_roundtrip; assumption.
Qed.
Print Assumptions table_roundtrip.

(* ------------------------------------------------------------------ quoted_rfc: line breaks inside fields *)

Lemma nl_norm_lf t : nl_norm (LF :: t) = LF :: nl_norm t.
Proof. reflexivity. Qed.
Lemma nl_norm_crlf t : nl_norm (CR :: LF :: t) = LF :: nl_norm t.
Proof. reflexivity. Qed.
Lemma nl_norm_cr_end : nl_norm [CR] = [LF].
Proof. reflexivity. Qed.
Lemma nl_norm_cr d t : d <> LF -> nl_norm (CR :: d :: t) = LF :: nl_norm (d :: t).
Proof. intros H. cbn [nl_norm]. change (N.eqb CR CR) with true. cbv iota. rewrite (neqb_neq _ _ H). reflexivity. Qed.
Lemma nl_norm_ch c t : c <> CR -> nl_norm (c :: t) = c :: nl_norm t.
Proof. intros H. cbn [nl_norm]. rewrite (neqb_neq _ _ H). reflexivity. Qed.

Lemma nl_norm_app a : forall b, (ecr a = false \/ starts_with [LF] b = false) -> nl_norm (a ++ b) = nl_norm a ++ nl_norm b.
Proof.
  induction a as [| t IH | | t IH | d t Hd IH | c t Hc IH] using nl_ind; intros b H.
  - reflexivity.
  - cbn [app]. rewrite !nl_norm_lf, IH; [reflexivity|]. destruct H as [H|H]; [left; exact (ecr_tail _ _ H)|right; exact H].
  - destruct H as [H|H]; [discriminate|]. destruct b as [|d b]; [reflexivity|].
    cbn [starts_with] in H. rewrite andb_true_r in H. apply N.eqb_neq in H.
    cbn [app]. rewrite nl_norm_cr by congruence. reflexivity.
  - cbn [app]. rewrite !nl_norm_crlf, IH; [reflexivity|].
    destruct H as [H|H]; [left; exact (ecr_tail _ _ (ecr_tail _ _ H))|right; exact H].
  - change ((CR :: d :: t) ++ b) with (CR :: d :: (t ++ b)). rewrite !(nl_norm_cr _ _ Hd).
    change (d :: t ++ b) with ((d :: t) ++ b). rewrite IH; [reflexivity|].
    destruct H as [H|H]; [left; exact (ecr_tail _ _ H)|right; exact H].
  - apply isnl_false in Hc. destruct Hc as [_ Hc]. cbn [app]. rewrite !(nl_norm_ch _ _ Hc), IH; [reflexivity|].
    destruct H as [H|H]; [left; exact (ecr_tail _ _ H)|right; exact H].
Qed.

Lemma nl_norm_double f : nl_norm (double f) = double (nl_norm f).
Proof.
  induction f as [| t IH | | t IH | d t Hd IH | c t Hc IH] using nl_ind.
  - reflexivity.
  - rewrite (double_nq _ _ LF_ne_QT), !nl_norm_lf, (double_nq _ _ LF_ne_QT), IH. reflexivity.
  - reflexivity.
  - rewrite (double_nq _ _ CR_ne_QT), (double_nq _ _ LF_ne_QT), !nl_norm_crlf, (double_nq _ _ LF_ne_QT), IH. reflexivity.
  - rewrite (double_nq _ _ CR_ne_QT), (nl_norm_cr _ _ Hd), (double_nq _ _ LF_ne_QT), <- IH.
    destruct (N.eq_dec d QT) as [->|Hq].
    + rewrite double_qt. apply nl_norm_cr. exact QT_ne_LF.
    + rewrite (double_nq _ _ Hq). apply nl_norm_cr. exact Hd.
  - apply isnl_false in Hc. destruct Hc as [_ Hc]. rewrite (nl_norm_ch _ _ Hc). destruct (N.eq_dec c QT) as [->|Hq].
    + rewrite !double_qt, !(nl_norm_ch _ _ QT_ne_CR), IH. reflexivity.
    + rewrite !(double_nq _ _ Hq), (nl_norm_ch _ _ Hc), IH. reflexivity.
Qed.

Lemma nl_norm_wrap s : nl_norm (wrap s) = wrap (nl_norm s).
Proof. unfold wrap. rewrite (nl_norm_ch _ _ QT_ne_CR), nl_norm_app by (right; reflexivity). reflexivity. Qed.

Lemma hasnl_nl_norm s : hasnl (nl_norm s) = hasnl s.
Proof.
  induction s as [| t IH | | t IH | d t Hd IH | c t Hc IH] using nl_ind.
  - reflexivity.
  - rewrite nl_norm_lf, !hasnl_cons, IH. reflexivity.
  - reflexivity.
  - rewrite nl_norm_crlf, !hasnl_cons, IH. reflexivity.
  - rewrite (nl_norm_cr _ _ Hd), (hasnl_cons CR), (hasnl_cons LF), IH. reflexivity.
  - pose proof Hc as Hc'. apply isnl_false in Hc'. destruct Hc' as [_ Hc']. rewrite (nl_norm_ch _ _ Hc'), !hasnl_cons, IH. reflexivity.
Qed.

Lemma gets_quoted_rfc_false dlm f : gets_quoted QuotedRfc dlm f = false -> has QT f = false /\ hasnl f = false.
Proof.
  unfold gets_quoted. rewrite hasnl_spec. intros H. apply orb_false_iff in H. destruct H as [H Hn].
  apply orb_false_iff in H. destruct H as [Hq _]. split; assumption.
Qed.

Lemma gets_quoted_nl_norm dlm f : gets_quoted QuotedRfc dlm (nl_norm f) = gets_quoted QuotedRfc dlm f.
Proof.
  destruct (hasnl f) eqn:H.
  - unfold gets_quoted. rewrite !hasnl_spec, hasnl_nl_norm, H, !orb_true_r. reflexivity.
  - rewrite (nl_norm_plain _ H). reflexivity.
Qed.

Lemma nl_norm_render dlm f :
  nl_norm (qrender (gets_quoted QuotedRfc dlm) f) = qrender (gets_quoted QuotedRfc dlm) (nl_norm f).
Proof.
  unfold qrender. rewrite gets_quoted_nl_norm. destruct (gets_quoted QuotedRfc dlm f) eqn:E.
  - rewrite nl_norm_wrap, nl_norm_double. reflexivity.
  - apply gets_quoted_rfc_false in E. destruct E as [_ E]. rewrite !(nl_norm_plain _ E). reflexivity.
Qed.

Lemma ecr_render dlm f : ecr (qrender (gets_quoted QuotedRfc dlm) f) = false.
Proof.
  unfold qrender. destruct (gets_quoted QuotedRfc dlm f) eqn:E.
  - unfold wrap. change (QT :: double f ++ [QT]) with ((QT :: double f) ++ [QT]). rewrite ecr_snoc. reflexivity.
  - apply gets_quoted_rfc_false in E. apply ecr_plain. apply E.
Qed.

Lemma nl_norm_join_render dlm fs : hasnl dlm = false ->
  nl_norm (join dlm (map (qrender (gets_quoted QuotedRfc dlm)) fs)) =
  join dlm (map (qrender (gets_quoted QuotedRfc dlm)) (map nl_norm fs)).
Proof.
  intros Hd. induction fs as [|f fs IH]; [reflexivity|]. destruct fs as [|g fs].
  - cbn [map join]. apply nl_norm_render.
  - cbn [map] in *. rewrite !join_cons by discriminate.
    rewrite nl_norm_app by (left; apply ecr_render). rewrite nl_norm_app by (left; apply ecr_plain; exact Hd).
    rewrite (nl_norm_plain _ Hd), nl_norm_render, IH. reflexivity.
Qed.

Lemma bare_elem_nl_norm dlm (X : str -> bool) f :
  gets_quoted QuotedRfc dlm (nl_norm f) || X (nl_norm f) = gets_quoted QuotedRfc dlm f || X f.
Proof.
  destruct (hasnl f) eqn:H; [|rewrite (nl_norm_plain _ H); reflexivity].
  rewrite gets_quoted_nl_norm. unfold gets_quoted. rewrite hasnl_spec, H, !orb_true_r. reflexivity.
Qed.

Lemma bare_ok_nl_norm dlm fs :
  bare_ok dlm (gets_quoted QuotedRfc dlm) (map nl_norm fs) = bare_ok dlm (gets_quoted QuotedRfc dlm) fs.
Proof.
  induction fs as [|f fs IH]; [reflexivity|]. destruct fs as [|g fs].
  - cbn [map bare_ok]. apply (bare_elem_nl_norm dlm (fun f => negb (contains dlm f))).
  - cbn [map] in *. rewrite !bare_ok_cons2, IH. rewrite (bare_elem_nl_norm dlm (no_overlap dlm)). reflexivity.
Qed.

Lemma line_ok_nl_norm dlm fs : line_ok QuotedRfc dlm (map nl_norm fs) = line_ok QuotedRfc dlm fs.
Proof. cbn [line_ok]. rewrite bare_ok_nl_norm. destruct fs; reflexivity. Qed.

(* the logical row the reader assembles splits into the fields with their line breaks normalised *)
Lemma row_split_rfc fl dlm fs : good_dlm QuotedRfc dlm = true -> hasnl dlm = false -> line_ok QuotedRfc dlm fs = true ->
  smart_split QuotedRfc dlm false (nl_norm (join_line_fl fl QuotedRfc dlm fs)) = (map nl_norm fs, false).
Proof.
  intros G Hd Hl. rewrite join_line_rfc_render, (nl_norm_join_render dlm fs Hd), <- (join_line_rfc_render fl).
  apply line_roundtrip; [exact G|]. rewrite line_ok_nl_norm. exact Hl.
Qed.

(* normalising the line breaks of a written quoted_rfc line = writing the fields with normalised line breaks *)
Lemma nl_norm_join_line_rfc fl dlm fs : hasnl dlm = false ->
  nl_norm (join_line_fl fl QuotedRfc dlm fs) = join_line_fl fl QuotedRfc dlm (map nl_norm fs).
Proof. intros Hd. rewrite !join_line_rfc_render. apply nl_norm_join_render. exact Hd. Qed.

(* a quoted_rfc output line: every line break inside an odd number of quotes, an even number of quotes in all *)
Lemma nlq_render q f b : (q f = false -> has QT f = false /\ hasnl f = false) -> nlq false (qrender q f ++ b) = nlq false b.
Proof.
  intros H. unfold qrender. destruct (q f); [apply nlq_wrap|]. destruct (H eq_refl) as [H1 H2]. apply nlq_plain; assumption.
Qed.

Lemma nlq_join_render dlm q : has QT dlm = false -> hasnl dlm = false ->
  (forall f, q f = false -> has QT f = false /\ hasnl f = false) ->
  forall fs, nlq false (join dlm (map (qrender q) fs)) = true.
Proof.
  intros Hq Hn H fs. induction fs as [|f fs IH]; [reflexivity|]. destruct fs as [|g fs].
  - cbn [map join]. rewrite <- (app_nil_r (qrender q f)), (nlq_render q f [] (H f)). reflexivity.
  - cbn [map] in *. rewrite join_cons by discriminate. rewrite (nlq_render q f _ (H f)), (nlq_plain _ _ _ Hq Hn). exact IH.
Qed.

Lemma written_rfc_nlq fl dlm fs : good_dlm QuotedRfc dlm = true -> hasnl dlm = false ->
  nlq false (join_line_fl fl QuotedRfc dlm fs) = true.
Proof.
  intros G Hd. rewrite join_line_rfc_render. cbn [good_dlm] in G.
  destruct (good_quoted_dlm_facts dlm G) as [c0 [d0 [_ [_ [Hq _]]]]].
  apply nlq_join_render; [exact Hq|exact Hd|intros f; apply gets_quoted_rfc_false].
Qed.

(* ------------------------------------------------------------------ Theorem 3: quoted_rfc *)

Definition physical_lines (lines : list str) : nat := length (concat (map cut lines)).

Theorem table_roundtrip_rfc fl dlm ls c rows :
  c_rfc c = true -> line_sep ls ->
  good_dlm QuotedRfc dlm = true -> dlm_nl_free QuotedRfc dlm = true ->
  table_ok QuotedRfc dlm (enc_code (c_enc c)) rows = true ->
  no_comment_rows c (written fl QuotedRfc dlm rows) = true ->
  records_of_text (smart_split QuotedRfc dlm false) c (emit ls (written fl QuotedRfc dlm rows)) =
  ok_result c (map (map nl_norm) rows) (physical_lines (written fl QuotedRfc dlm rows)).
Proof.
  intros Hrfc Hls G Hd Hok Hcm. pose proof (table_ok_rows _ _ _ _ Hok) as Hrows.
  pose proof (dlm_nl_free_hasnl QuotedRfc dlm ltac:(discriminate) Hd) as Hdn.
  assert (Forall (fun W => nlq false W = true /\ is_comment c (nl_norm W) = false) (written fl QuotedRfc dlm rows)) as Hq.
  { apply no_comment_rows_Forall in Hcm. unfold written in *. clear Hok Hrows.
    induction rows as [|r rs IH]; cbn [map] in *; [constructor|]. inversion Hcm as [|? ? Hc Hcs]; subst.
    constructor; [|exact (IH Hcs)]. split; [apply written_rfc_nlq; assumption|exact Hc]. }
  unfold records_of_text. rewrite (lines_of_written_gen ls _ Hls).
  2:{ eapply Forall_impl; [|exact Hq]. intros W [HW _]. exact (nlq_clean W HW). }
  unfold physical_lines.
  apply (records_of_lines_clean _ c _ (map nl_norm (written fl QuotedRfc dlm rows))).
  - destruct rows as [|r rs]; [reflexivity|]. pose proof (table_ok_bom fl _ _ _ _ _ Hok) as Hb.
    unfold written. cbn [map concat]. apply strip_bom_clean. exact Hb.
  - unfold logical_rows. rewrite Hrfc, (group_rfc_written c _ 0%nat Hq). apply map_fst_number_cut.
  - clear Hok Hrows Hcm. induction Hq as [|W r [_ HW] Hr IH]; cbn [map]; [constructor|]. constructor; [exact HW|exact IH].
  - unfold written. clear Hok Hcm Hq. induction Hrows as [|r rs Hr Hrs IH]; cbn [map]; constructor; [|exact IH].
    unfold representable in Hr. apply andb_true_iff in Hr. destruct Hr as [Hr _].
    apply row_split_rfc; assumption.
Qed.
Print Assumptions table_roundtrip_rfc.

(* ------------------------------------------------------------------ all policies in one statement (EntryCsv code 120) *)

Lemma physical_lines_plain lines : Forall (fun l => hasnl l = false) lines -> physical_lines lines = length lines.
Proof.
  intros H. unfold physical_lines. induction H as [|l r Hl Hr IH]; [reflexivity|].
  cbn [map concat]. rewrite (cut_plain _ Hl). cbn [app length]. rewrite IH. reflexivity.
Qed.

Theorem table_roundtrip_any fl pol dlm ls c rows :
  c_rfc c = is_rfc pol -> line_sep ls ->
  good_dlm pol dlm = true -> dlm_nl_free pol dlm = true ->
  table_ok pol dlm (enc_code (c_enc c)) rows = true ->
  no_comment_rows c (written fl pol dlm rows) = true ->
  records_of_text (smart_split pol dlm false) c (emit ls (written fl pol dlm rows)) =
  ok_result c (map (map nl_norm) rows) (physical_lines (written fl pol dlm rows)).
Proof.
  intros Hrfc Hls G Hd Hok Hcm.
  destruct (is_rfc pol) eqn:Er.
  - destruct pol; try discriminate. apply table_roundtrip_rfc; assumption.
  - assert (pol <> QuotedRfc) as Hp by (intros ->; discriminate).
    pose proof (table_ok_rows _ _ _ _ Hok) as Hrows.
    assert (map (map nl_norm) rows = rows) as ->.
    { clear Hok Hcm. induction Hrows as [|r rs Hr Hrs IH]; [reflexivity|]. cbn [map]. rewrite IH. f_equal.
      apply map_nl_norm_plain. apply (written_plain fl pol dlm r Hp Hd Hr). }
    rewrite physical_lines_plain.
    + unfold written at 2. rewrite map_length. apply table_roundtrip; assumption.
    + unfold written. clear Hok Hcm. induction Hrows as [|r rs Hr Hrs IH]; cbn [map]; constructor; [|exact IH].
      apply (written_plain fl pol dlm r Hp Hd Hr).
Qed.
Print Assumptions table_roundtrip_any.

(* ------------------------------------------------------------------ the statements for the plain configuration *)

Definition plain_cfg (rfc : bool) (header : bool) (e : enc) : cfg :=
  {| c_rfc := rfc; c_comment := None; c_header := header; c_enc := e; c_modifier := None |}.

(* no header: the same table comes back, no BOM warning, no defective line, NL = number of physical lines, NR = number of rows *)
Corollary table_roundtrip_plain fl pol dlm ls e rows :
  line_sep ls -> good_dlm pol dlm = true -> dlm_nl_free pol dlm = true -> table_ok pol dlm (enc_code e) rows = true ->
  exists w,
    records_of_text (smart_split pol dlm false) (plain_cfg (is_rfc pol) false e) (emit ls (written fl pol dlm rows)) =
    ROk (map (map nl_norm) rows) None w (physical_lines (written fl pol dlm rows)) (length rows) /\
    w_bom w = false /\ w_defective w = None /\ w_fields w = fields_warning (finfo_run 0 [] (map (@length str) rows)).
Proof.
  intros Hls G Hd Hok. eexists. split.
  - rewrite (table_roundtrip_any fl pol dlm ls (plain_cfg (is_rfc pol) false e) rows); try assumption; try reflexivity.
    + unfold ok_result. cbn [effective_header plain_cfg c_modifier c_header]. rewrite map_length. reflexivity.
    + apply no_comment_none. reflexivity.
  - cbn [mk_warnings w_bom w_defective w_fields]. rewrite !map_map.
    repeat split. f_equal. f_equal. apply map_ext. intros r. apply map_length.
Qed.

(* Theorem 4, header: the first row comes back as the header, the others as records *)
Corollary table_roundtrip_header fl pol dlm ls e h rows :
  line_sep ls -> good_dlm pol dlm = true -> dlm_nl_free pol dlm = true -> table_ok pol dlm (enc_code e) (h :: rows) = true ->
  exists w,
    records_of_text (smart_split pol dlm false) (plain_cfg (is_rfc pol) true e) (emit ls (written fl pol dlm (h :: rows))) =
    ROk (map (map nl_norm) rows) (Some (map nl_norm h)) w (physical_lines (written fl pol dlm (h :: rows))) (S (length rows)) /\
    w_bom w = false /\ w_defective w = None.
Proof.
  intros Hls G Hd Hok. eexists. split.
  - rewrite (table_roundtrip_any fl pol dlm ls (plain_cfg (is_rfc pol) true e) (h :: rows)); try assumption; try reflexivity.
    + unfold ok_result. cbn [effective_header plain_cfg c_modifier c_header map tl hd_error length]. rewrite !map_length. reflexivity.
    + apply no_comment_none. reflexivity.
  - split; reflexivity.
Qed.

(* non-rfc policies: exactly the same table *)
Corollary table_roundtrip_exact fl pol dlm ls e rows :
  pol <> QuotedRfc -> line_sep ls -> good_dlm pol dlm = true -> dlm_nl_free pol dlm = true ->
  table_ok pol dlm (enc_code e) rows = true ->
  exists w,
    records_of_text (smart_split pol dlm false) (plain_cfg false false e) (emit ls (written fl pol dlm rows)) =
    ROk rows None w (length rows) (length rows) /\ w_bom w = false /\ w_defective w = None.
Proof.
  intros Hp Hls G Hd Hok. eexists. split.
  - apply (table_roundtrip fl pol dlm ls (plain_cfg false false e) rows); try assumption; try reflexivity.
    apply no_comment_none. reflexivity.
  - split; reflexivity.
Qed.

(* quoted_rfc without CR in the fields (table_representable): exactly the same table *)
Lemma nl_norm_no_cr s : has CR s = false -> nl_norm s = s.
Proof.
  induction s as [|c s IH]; intros H; [reflexivity|]. apply has_cons_false in H. destruct H as [Hc Hs].
  rewrite (nl_norm_ch _ _ Hc), (IH Hs). reflexivity.
Qed.

Corollary table_representable_exact fl pol dlm ls c rows :
  c_rfc c = is_rfc pol -> line_sep ls -> good_dlm pol dlm = true -> dlm_nl_free pol dlm = true ->
  table_representable pol dlm (enc_code (c_enc c)) rows = true ->
  no_comment_rows c (written fl pol dlm rows) = true ->
  records_of_text (smart_split pol dlm false) c (emit ls (written fl pol dlm rows)) =
  ok_result c rows (physical_lines (written fl pol dlm rows)).
Proof.
  intros Hrfc Hls G Hd Hrep Hcm. unfold table_representable in Hrep. apply andb_true_iff in Hrep. destruct Hrep as [Hok Hcr].
  rewrite (table_roundtrip_any fl pol dlm ls c rows Hrfc Hls G Hd Hok Hcm). f_equal.
  rewrite forallb_forall in Hcr. clear - Hcr. induction rows as [|r rs IH]; [reflexivity|].
  cbn [map]. rewrite IH by (intros x Hx; apply Hcr; right; exact Hx). f_equal.
  specialize (Hcr r (or_introl eq_refl)). rewrite forallb_forall in Hcr.
  clear - Hcr. induction r as [|f fs IH]; [reflexivity|]. cbn [map]. rewrite IH by (intros x Hx; apply Hcr; right; exact Hx).
  f_equal. apply nl_norm_no_cr. apply negb_true_iff. apply Hcr. left. reflexivity.
Qed.

(* ------------------------------------------------------------------ Theorem 5: the writer model *)

Lemma write_row_line fl pol dlm hl st row st' :
  write_row fl pol dlm hl st row = (st', None) ->
  w_lines st' = join_line_fl fl pol dlm (fst (normalize_fields dlm row)) :: w_lines st.
Proof.
  unfold write_row. destruct (match hl with Some n => negb (Nat.eqb (length row) n) | None => false end); [discriminate|].
  destruct (normalize_fields dlm row) as [fs nn]. cbn [fst].
  destruct pol; try (intros H; inversion H; subst; reflexivity).
  destruct fs as [|f [|g fs]]; [discriminate| |discriminate].
  intros H; inversion H; subst; reflexivity.
Qed.

Lemma write_rows_lines fl pol dlm hl : forall rows st idx st',
  write_rows fl pol dlm hl st idx rows = (st', None) ->
  w_lines st' = rev (map (fun r => join_line_fl fl pol dlm (fst (normalize_fields dlm r))) rows) ++ w_lines st.
Proof.
  induction rows as [|r rows IH]; intros st idx st' H; cbn [write_rows] in H.
  - inversion H; subst. reflexivity.
  - destruct (write_row fl pol dlm hl st r) as [st1 [e|]] eqn:E; [discriminate|].
    rewrite (IH _ _ _ H), (write_row_line _ _ _ _ _ _ _ E). cbn [map rev]. rewrite <- app_assoc. reflexivity.
Qed.

Definition all_rows (header : option (list cell)) (rows : list (list cell)) : list (list cell) :=
  match header with Some h => h :: rows | None => rows end.

Definition norm_rows (dlm : str) (header : option (list cell)) (rows : list (list cell)) : list (list str) :=
  map (fun r => fst (normalize_fields dlm r)) (all_rows header rows).

Theorem write_table_lines fl pol dlm header rows lines nf df :
  write_table fl pol dlm header rows = (lines, None, nf, df) ->
  lines = written fl pol dlm (norm_rows dlm header rows).
Proof.
  unfold write_table, written, norm_rows, all_rows. rewrite map_map.
  destruct header as [h|].
  - destruct (write_rows fl pol dlm (Some (length h)) _ 0%nat (h :: rows)) as [st e] eqn:E. intros H. inversion H; subst.
    rewrite (write_rows_lines _ _ _ _ _ _ _ _ E). cbn [w_lines]. rewrite app_nil_r. apply rev_involutive.
  - destruct (write_rows fl pol dlm None _ 0%nat rows) as [st e] eqn:E. intros H. inversion H; subst.
    rewrite (write_rows_lines _ _ _ _ _ _ _ _ E). cbn [w_lines]. rewrite app_nil_r. apply rev_involutive.
Qed.
Print Assumptions write_table_lines.

(* what EntryCsv code 120 reports as the expected read-back: justified by the reader specification *)
Theorem writer_reader_roundtrip fl pol dlm ls c header rows lines nf df :
  write_table fl pol dlm header rows = (lines, None, nf, df) ->
  c_rfc c = is_rfc pol -> line_sep ls ->
  good_dlm pol dlm = true -> dlm_nl_free pol dlm = true ->
  table_ok pol dlm (enc_code (c_enc c)) (norm_rows dlm header rows) = true ->
  no_comment_rows c lines = true ->
  records_of_text (smart_split pol dlm false) c (emit ls lines) =
  ok_result c (map (map nl_norm) (norm_rows dlm header rows)) (physical_lines lines).
Proof.
  intros Hw Hrfc Hls G Hd Hok Hcm. rewrite (write_table_lines _ _ _ _ _ _ _ _ Hw) in *.
  apply table_roundtrip_any; assumption.
Qed.
Print Assumptions writer_reader_roundtrip.

(* the Python stream reader model, for every partition of the text into pieces and every chunk size *)
Corollary py_table_roundtrip fl pol dlm ls c rows cs ps :
  (1 <= cs)%nat -> Forall nonempty ps -> concat ps = emit ls (written fl pol dlm rows) ->
  c_rfc c = is_rfc pol -> line_sep ls ->
  good_dlm pol dlm = true -> dlm_nl_free pol dlm = true ->
  table_ok pol dlm (enc_code (c_enc c)) rows = true ->
  no_comment_rows c (written fl pol dlm rows) = true ->
  run_py (smart_split pol dlm false) c cs ps = ok_result c (map (map nl_norm) rows) (physical_lines (written fl pol dlm rows)).
Proof.
  intros Hcs Hne Hps Hrfc Hls G Hd Hok Hcm. rewrite (py_records _ c cs ps Hcs Hne), Hps.
  apply table_roundtrip_any; assumption.
Qed.
Print Assumptions py_table_roundtrip.

(* ------------------------------------------------------------------ the field-count warning *)

Lemma insert_by_nr_length x l : length (insert_by_nr x l) = S (length l).
Proof.
  induction l as [|y t IH]; [reflexivity|]. cbn [insert_by_nr]. destruct (snd x <? snd y)%nat; cbn [length]; [reflexivity|].
  rewrite IH. reflexivity.
Qed.

Lemma sort_by_nr_length l : length (sort_by_nr l) = length l.
Proof.
  unfold sort_by_nr. induction l as [|x l IH]; [reflexivity|]. cbn [fold_right length]. rewrite insert_by_nr_length, IH. reflexivity.
Qed.

Lemma fields_warning_none finfo : fields_warning finfo = None <-> (length finfo <= 1)%nat.
Proof.
  unfold fields_warning. rewrite <- (sort_by_nr_length finfo).
  destruct (sort_by_nr finfo) as [|[n1 r1] [|[n2 r2] t]]; cbn [length]; split; intros H; try reflexivity; try lia; discriminate.
Qed.

Definition same_length (lens : list nat) : bool :=
  match lens with [] => true | n :: r => forallb (Nat.eqb n) r end.

Lemma fields_info_add_len finfo n nr : (length finfo <= length (fields_info_add finfo n nr))%nat.
Proof. unfold fields_info_add. destruct (existsb _ finfo); [lia|]. rewrite app_length. cbn [length]. lia. Qed.

Lemma finfo_run_mono lens : forall nr finfo, (length finfo <= length (finfo_run nr finfo lens))%nat.
Proof.
  induction lens as [|n r IH]; intros nr finfo; cbn [finfo_run]; [lia|].
  eapply Nat.le_trans; [apply (fields_info_add_len finfo n (S nr))|apply IH].
Qed.

Lemma finfo_run_single n k lens : forall nr,
  (length (finfo_run nr [(n, k)] lens) <= 1)%nat <-> forallb (Nat.eqb n) lens = true.
Proof.
  induction lens as [|m r IH]; intros nr; cbn [finfo_run forallb].
  - split; [reflexivity|cbn; lia].
  - unfold fields_info_add. cbn [existsb fst]. rewrite orb_false_r. destruct (Nat.eqb n m) eqn:E; cbn [andb].
    + apply IH.
    + cbn [app]. split; [|discriminate]. intros H. pose proof (finfo_run_mono r (S nr) [(n, k); (m, S nr)]) as M.
      cbn [length] in M. lia.
Qed.

(* the warning 'Number of fields in input table is not consistent' is absent iff all records have the same number of fields *)
Theorem fields_warning_iff lens : fields_warning (finfo_run 0 [] lens) = None <-> same_length lens = true.
Proof.
  destruct lens as [|n r]; [split; reflexivity|]. cbn [finfo_run same_length]. unfold fields_info_add. cbn [existsb app].
  rewrite fields_warning_none. apply finfo_run_single.
Qed.

Corollary ok_result_warnings c recs nl :
  exists rs h w nr, ok_result c recs nl = ROk rs h w nl nr /\ w_bom w = false /\ w_defective w = None /\
    (w_fields w = None <-> same_length (map (@length str) recs) = true).
Proof.
  unfold ok_result. do 4 eexists. split; [reflexivity|]. cbn [mk_warnings w_bom w_defective w_fields].
  split; [reflexivity|]. split; [reflexivity|]. apply fields_warning_iff.
Qed.

(* ------------------------------------------------------------------ REFUTED: good_dlm && table_ok alone
   A delimiter that contains LF or CR satisfies good_dlm (simple, quoted, quoted_rfc), every row of separator-free fields
   satisfies table_ok, and the written line is cut in two by the reader.  The real implementations behave the same
   (rbql_csv.CSVWriter / CSVRecordIterator, delim LF: [[a, b]] is written as a LF b LF and read back as [[a], [b]]).
   Hence the hypothesis dlm_nl_free of the theorems above; CsvSpec.table_ok (or good_dlm) does not include it. *)
Lemma table_roundtrip_nl_dlm_refuted :
  let a := 97%N in let b := 98%N in
  let rows := [[[a]; [b]]] in
  let w0 := {| w_bom := false; w_defective := None; w_fields := None |} in
  (good_dlm Simple [LF] = true /\ table_ok Simple [LF] 0 rows = true /\
   records_of_text (smart_split Simple [LF] false) (plain_cfg false false EncNone) (emit [LF] (written LPy Simple [LF] rows))
   = ROk [[[a]]; [[b]]] None w0 2 2) /\
  (good_dlm Quoted [CR] = true /\ table_ok Quoted [CR] 0 rows = true /\
   records_of_text (smart_split Quoted [CR] false) (plain_cfg false false EncNone) (emit [LF] (written LJs Quoted [CR] rows))
   = ROk [[[a]]; [[b]]] None w0 2 2) /\
  (good_dlm QuotedRfc [a; LF; b] = true /\ table_ok QuotedRfc [a; LF; b] 0 rows = true /\
   records_of_text (smart_split QuotedRfc [a; LF; b] false) (plain_cfg true false EncNone)
                   (emit [CR; LF] (written LPy QuotedRfc [a; LF; b] rows))
   = ROk [[[a; a]]; [[b; b]]] None w0 2 2).
Proof. vm_compute. repeat split. Qed.
Print Assumptions fields_warning_iff.
Print Assumptions table_roundtrip_nl_dlm_refuted.

(* ------------------------------------------------------------------ non-vacuity: concrete tables *)

Module Examples.
  Definition a := 97%N. Definition b := 98%N. Definition d := 100%N. Definition e := 101%N. Definition f := 102%N.
  Definition SEMI := 59%N.

  (* simple, "," , LF *)
  Definition rows_simple : list (list str) := [[[a]; [b; QT]]; [[]]; [[d]; []; [e]]].
  Example ex_simple :
    records_of_text (smart_split Simple [COMMA] false) (plain_cfg false false EncUtf8)
                    (emit [LF] (written LJs Simple [COMMA] rows_simple))
    = ROk rows_simple None {| w_bom := false; w_defective := None; w_fields := Some (1, 2, 2, 1)%nat |} 3 3.
  Proof.
    rewrite (table_roundtrip LJs Simple [COMMA] [LF] (plain_cfg false false EncUtf8) rows_simple);
      [vm_compute; reflexivity|discriminate|reflexivity|left; reflexivity|reflexivity|reflexivity|vm_compute; reflexivity|reflexivity].
  Qed.

  (* quoted, two-character delimiter ";;", CRLF, header: fields with the delimiter, a quote, a lone ";" and leading spaces *)
  Definition hdr_quoted : list str := [[a; SEMI; SEMI; b]; [d]].
  Definition rows_quoted : list (list str) := [[[QT; a; QT]; [SEMI]]; [[SP; e]; [f; SP]]].
  Example ex_quoted :
    records_of_text (smart_split Quoted [SEMI; SEMI] false) (plain_cfg false true EncLatin1)
                    (emit [CR; LF] (written LPy Quoted [SEMI; SEMI] (hdr_quoted :: rows_quoted)))
    = ROk rows_quoted (Some hdr_quoted) {| w_bom := false; w_defective := None; w_fields := None |} 3 3.
  Proof.
    rewrite (table_roundtrip LPy Quoted [SEMI; SEMI] [CR; LF] (plain_cfg false true EncLatin1) (hdr_quoted :: rows_quoted));
      [vm_compute; reflexivity|discriminate|reflexivity|right; left; reflexivity|reflexivity|reflexivity|vm_compute; reflexivity|reflexivity].
  Qed.

  (* whitespace: an empty record is an empty line *)
  Definition rows_ws : list (list str) := [[[a]; [b; QT]]; []; [[d]]].
  Example ex_whitespace :
    records_of_text (smart_split Whitespace [SP] false) (plain_cfg false false EncNone)
                    (emit [LF] (written LPy Whitespace [SP] rows_ws))
    = ROk rows_ws None {| w_bom := false; w_defective := None; w_fields := Some (1, 2, 2, 0)%nat |} 3 3.
  Proof.
    rewrite (table_roundtrip LPy Whitespace [SP] [LF] (plain_cfg false false EncNone) rows_ws);
      [vm_compute; reflexivity|discriminate|reflexivity|left; reflexivity|reflexivity|reflexivity|vm_compute; reflexivity|reflexivity].
  Qed.

  (* monocolumn: the delimiter is irrelevant (here it even contains LF) *)
  Definition rows_mono : list (list str) := [[[a; SP; QT; b]]; [[]]; [[COMMA]]].
  Example ex_monocolumn :
    records_of_text (smart_split Monocolumn [LF] false) (plain_cfg false false EncUtf8)
                    (emit [CR; LF] (written LJs Monocolumn [LF] rows_mono))
    = ROk rows_mono None {| w_bom := false; w_defective := None; w_fields := None |} 3 3.
  Proof.
    rewrite (table_roundtrip LJs Monocolumn [LF] [CR; LF] (plain_cfg false false EncUtf8) rows_mono);
      [vm_compute; reflexivity|discriminate|reflexivity|right; left; reflexivity|reflexivity|reflexivity|vm_compute; reflexivity|reflexivity].
  Qed.

  (* quoted_rfc, ";;", CRLF: a field with CR LF and a quote, a field with a lone CR; 2 records on 4 physical lines.
     The real Python writer (delim ;; policy quoted_rfc, line_separator CRLF) writes exactly ex_rfc_written and
     CSVRecordIterator reads back the records below, NL = 4, NR = 2, record 1 -> 2 fields, record 2 -> 1 fields *)
  Definition rows_rfc : list (list str) := [[[a; CR; LF; b; QT; 99%N]; [d]]; [[e; CR; f]]].
  Example ex_rfc_written :
    written LPy QuotedRfc [SEMI; SEMI] rows_rfc = [[QT; a; CR; LF; b; QT; QT; 99%N; QT; SEMI; SEMI; d]; [QT; e; CR; f; QT]].
  Proof. reflexivity. Qed.
  Example ex_rfc :
    records_of_text (smart_split QuotedRfc [SEMI; SEMI] false) (plain_cfg true false EncUtf8)
                    (emit [CR; LF] (written LPy QuotedRfc [SEMI; SEMI] rows_rfc))
    = ROk [[[a; LF; b; QT; 99%N]; [d]]; [[e; LF; f]]] None
          {| w_bom := false; w_defective := None; w_fields := Some (1, 2, 2, 1)%nat |} 4 2.
  Proof.
    rewrite (table_roundtrip_rfc LPy [SEMI; SEMI] [CR; LF] (plain_cfg true false EncUtf8) rows_rfc);
      [vm_compute; reflexivity|reflexivity|right; left; reflexivity|reflexivity|reflexivity|vm_compute; reflexivity|reflexivity].
  Qed.
  (* the same by plain evaluation of the models *)
  Example ex_rfc_eval :
    records_of_text (smart_split QuotedRfc [SEMI; SEMI] false) (plain_cfg true false EncUtf8)
                    (emit [CR; LF] (written LPy QuotedRfc [SEMI; SEMI] rows_rfc))
    = ROk [[[a; LF; b; QT; 99%N]; [d]]; [[e; LF; f]]] None
          {| w_bom := false; w_defective := None; w_fields := Some (1, 2, 2, 1)%nat |} 4 2.
  Proof. vm_compute. reflexivity. Qed.

  (* quoted_rfc with a lone CR as line separator: a field ending with CR, an empty first field, a field that is one LF.
     The real Python writer/reader pair gives the same: text  QT a CR QT , b CR , x CR QT LF QT CR ; NL = 5, NR = 3 *)
  Definition rows_rfc_cr : list (list str) := [[[a; CR]; [b]]; [[]; [120%N]]; [[LF]]].
  Example ex_rfc_cr :
    records_of_text (smart_split QuotedRfc [COMMA] false) (plain_cfg true false EncNone)
                    (emit [CR] (written LJs QuotedRfc [COMMA] rows_rfc_cr))
    = ROk [[[a; LF]; [b]]; [[]; [120%N]]; [[LF]]] None
          {| w_bom := false; w_defective := None; w_fields := Some (1, 2, 3, 1)%nat |} 5 3.
  Proof.
    rewrite (table_roundtrip_rfc LJs [COMMA] [CR] (plain_cfg true false EncNone) rows_rfc_cr);
      [vm_compute; reflexivity|reflexivity|right; right; reflexivity|reflexivity|reflexivity|vm_compute; reflexivity|reflexivity].
  Qed.

  (* through the writer model: None, an integer and a list cell; header given *)
  Definition w_header : list cell := [CStr [a]; CStr [b]].
  Definition w_rows : list (list cell) := [[CNone; CInt (-12)%Z]; [CList [CStr [d]; CInt 7%Z]; CStr [e; LF; QT]]].
  Example ex_writer :
    exists lines nf df,
      write_table LJs QuotedRfc [COMMA] (Some w_header) w_rows = (lines, None, nf, df) /\
      records_of_text (smart_split QuotedRfc [COMMA] false) (plain_cfg true true EncUtf8) (emit [LF] lines)
      = ROk [[[]; [45%N; 49%N; 50%N]]; [[d; 124%N; 55%N]; [e; LF; QT]]] (Some [[a]; [b]])
            {| w_bom := false; w_defective := None; w_fields := None |} 4 3.
  Proof.
    destruct (write_table LJs QuotedRfc [COMMA] (Some w_header) w_rows) as [[[lines e0] nf] df] eqn:E.
    assert (e0 = None) as -> by (vm_compute in E; congruence).
    exists lines, nf, df. split; [reflexivity|].
    rewrite (writer_reader_roundtrip LJs QuotedRfc [COMMA] [LF] (plain_cfg true true EncUtf8) (Some w_header) w_rows lines nf df E);
      [|reflexivity|left; reflexivity|reflexivity|reflexivity|vm_compute; reflexivity|apply no_comment_none; reflexivity].
    vm_compute in E. injection E as <- _ _. vm_compute. reflexivity.
  Qed.
End Examples.
