(* TextLayer.v — model of the text layer rbql-py reads bytes through.
   rbql_csv.encode_input_stream wraps the byte stream in io.TextIOWrapper(stream, encoding='utf-8' | 'latin-1') with the
   default newline handling (newline=None: universal newlines, translated).  TextIOWrapper._read_chunk does, per raw read,
       input_chunk = buffer.read1(CHUNK) (or .read(CHUNK));  eof = not input_chunk
       decoded = self._decoder.decode(input_chunk, eof)
   where self._decoder = io.IncrementalNewlineDecoder(codecs.getincrementaldecoder(enc)(errors='strict'), translate=True).
   Modelled here:
     (a) the incremental byte decoder: utf-8 strict = the state machine of Utf8.v (state: the incomplete sequence seen so
         far, as bytes still needed / bits collected / bounds of the next byte; an invalid byte raises at once - except that
         CPython defers the error for a piece ending in ED A0..BF to the next call, see decode_chunk_py - an incomplete
         sequence raises at final=True; U+FEFF is delivered like any other character - the codec is 'utf-8', not 'utf-8-sig');
         latin-1 = the identity on byte values, stateless;
     (b) IncrementalNewlineDecoder(decoder, translate=True).decode(input, final), state [pendingcr]:
             output = decoder.decode(input, final)
             if pendingcr and (output or final): output = CR + output; pendingcr = False
             if output.endswith(CR) and not final: output = output[:-1]; pendingcr = True
             output = output.replace(CRLF, LF).replace(CR, LF)
     (c) the composition over the list of raw reads, every read decoded with final=False, then the flush
         decode(b'', final=True) (the empty read that signals the end); the result is the list of text pieces (one per raw
         read plus the flush piece), or an error when a decode call raises (UnicodeDecodeError);
     (d) the Python reader over those text pieces (TextIOWrapper.read never returns '' before the end: empty pieces are
         skipped), a decoding error anywhere ending the run in an IO-handling error.
   NO proofs here (TextLayer_Proofs.v). *)
From RBQL Require Import Base Lines CsvSpec Utf8 Reader.

Inductive codec := CUtf8 | CLatin1.

(* ------------------------------------------------------------------ (a) the incremental byte decoder *)

(* One departure of CPython's strict incremental utf-8 decoder from the state machine of Utf8.v (found by the correspondence run,
   unicodeobject.c: "Truncated surrogate code in range D800-DFFF"): when a non-final piece ENDS with ED A0..BF - the first two
   bytes of an encoded surrogate, which the state machine rejects at the second byte - CPython keeps the two bytes pending and
   raises at the next non-empty piece (whatever it contains) or at the flush.  The error is deferred, never dropped.
   [decode_chunk_py] is decode_chunk with that exception: the flag says that such a pair is now held. *)
Fixpoint decode_chunk_py (st : dstate) (bs : bytes) : option (str * dstate * bool) :=
  match bs with
  | [] => Some ([], st, false)
  | b :: r =>
      match decode_byte st b with
      | None =>
          match r with
          | [] => if Nat.eqb (d_needed st) 2 && N.eqb (d_upper st) 159 && (160 <=? b)%N && (b <=? 191)%N
                  then Some ([], st, true) else None
          | _ => None
          end
      | Some (o, st1) =>
          match decode_chunk_py st1 r with
          | None => None
          | Some (s, st2, sg) => Some (match o with Some c => c :: s | None => s end, st2, sg)
          end
      end
  end.

(* decoder.decode(piece, final): None = UnicodeDecodeError; [surr]: a truncated surrogate pair is held from an earlier piece *)
Definition byte_decode (e : codec) (st : dstate) (surr : bool) (piece : bytes) (final : bool) : option (str * dstate * bool) :=
  match e with
  | CLatin1 => Some (decode_latin1 piece, st, surr)
  | CUtf8 =>
      if surr then
        match piece with
        | [] => if final then None else Some ([], st, true)
        | _ => None
        end
      else
        match decode_chunk_py st piece with
        | None => None
        | Some (s, st1, sg) => if final && (sg || negb (decode_flush st1)) then None else Some (s, st1, sg)
        end
  end.

(* the whole byte string at once: bytes.decode(enc) *)
Definition decode_bytes (e : codec) (b : bytes) : option str :=
  match e with
  | CLatin1 => Some (decode_latin1 b)
  | CUtf8 => decode_whole b
  end.

(* ------------------------------------------------------------------ (b) IncrementalNewlineDecoder(translate=True) *)

(* s.endswith(CR): the text without its last character when that character is CR *)
Fixpoint strip_last_cr (s : str) : option str :=
  match s with
  | [] => None
  | [c] => if N.eqb c CR then Some [] else None
  | c :: t => option_map (cons c) (strip_last_cr t)
  end.

(* the part of decode() after the inner decoder's call: (translated output, pendingcr afterwards) *)
Definition nl_decode (pendingcr : bool) (output : str) (final : bool) : str * bool :=
  let nonempty_or_final := match output with [] => final | _ => true end in
  let '(out1, p1) := if pendingcr && nonempty_or_final then (CR :: output, false) else (output, pendingcr) in
  let '(out2, p2) := if final then (out1, p1)
                     else match strip_last_cr out1 with
                          | Some o => (o, true)
                          | None => (out1, p1)
                          end in
  (nl_norm out2, p2).

(* the newline layer alone (IncrementalNewlineDecoder(None, translate=True) over text pieces): every piece with final=False,
   then decode('', final=True) *)
Fixpoint nl_stream (pendingcr : bool) (pieces : list str) : list str :=
  match pieces with
  | [] => [fst (nl_decode pendingcr [] true)]
  | p :: r => let '(o, p1) := nl_decode pendingcr p false in o :: nl_stream p1 r
  end.

(* the variant in which the last piece itself is decoded with final=True (no separate flush call) *)
Fixpoint nl_stream_last (pendingcr : bool) (pieces : list str) : list str :=
  match pieces with
  | [] => []
  | [p] => [fst (nl_decode pendingcr p true)]
  | p :: r => let '(o, p1) := nl_decode pendingcr p false in o :: nl_stream_last p1 r
  end.

(* any sequence of calls decode(piece, final) on one IncrementalNewlineDecoder(None, translate=True) object, observed call by
   call: (output, pendingcr afterwards) *)
Fixpoint nl_trace (pendingcr : bool) (calls : list (str * bool)) : list (str * bool) :=
  match calls with
  | [] => []
  | (p, f) :: r => let '(o, p1) := nl_decode pendingcr p f in (o, p1) :: nl_trace p1 r
  end.

(* ------------------------------------------------------------------ (c) the composition *)

Record tlstate := { tl_dec : dstate; tl_surr : bool; tl_pendingcr : bool }.
Definition tl_init : tlstate := {| tl_dec := d_init; tl_surr := false; tl_pendingcr := false |}.

(* IncrementalNewlineDecoder(decoder(enc), translate=True).decode(piece, final) *)
Definition tl_decode (e : codec) (st : tlstate) (piece : bytes) (final : bool) : option (str * tlstate) :=
  match byte_decode e (tl_dec st) (tl_surr st) piece final with
  | None => None
  | Some (s, d1, sg) =>
      let '(o, p1) := nl_decode (tl_pendingcr st) s final in Some (o, {| tl_dec := d1; tl_surr := sg; tl_pendingcr := p1 |})
  end.

(* the text pieces of a list of raw reads, the flush piece last; None when a decode call raises *)
Fixpoint text_layer_from (e : codec) (st : tlstate) (raws : list bytes) : option (list str) :=
  match raws with
  | [] => match tl_decode e st [] true with
          | None => None
          | Some (o, _) => Some [o]
          end
  | r :: rest =>
      match tl_decode e st r false with
      | None => None
      | Some (o, st1) => option_map (cons o) (text_layer_from e st1 rest)
      end
  end.
Definition text_layer (e : codec) (raws : list bytes) : option (list str) := text_layer_from e tl_init raws.

(* the same run observed call by call (what the correspondence run compares with the real objects): for every decode call
   that returned, (output, pendingcr afterwards, continuation bytes the byte decoder still waits for - one when it holds a
   truncated surrogate pair); the flag says whether the run ended without an exception (false: the call after the listed
   ones raised) *)
Definition obs := (str * bool * nat)%type.
Definition obs_of (o : str) (st : tlstate) : obs := (o, tl_pendingcr st, if tl_surr st then 1%nat else d_needed (tl_dec st)).
Fixpoint text_layer_trace_from (e : codec) (st : tlstate) (raws : list bytes) : list obs * bool :=
  match raws with
  | [] => match tl_decode e st [] true with
          | None => ([], false)
          | Some (o, st1) => ([obs_of o st1], true)
          end
  | r :: rest =>
      match tl_decode e st r false with
      | None => ([], false)
      | Some (o, st1) => let '(l, ok) := text_layer_trace_from e st1 rest in (obs_of o st1 :: l, ok)
      end
  end.
Definition text_layer_trace (e : codec) (raws : list bytes) : list obs * bool := text_layer_trace_from e tl_init raws.

(* ------------------------------------------------------------------ (d) the reader over the text layer *)

Definition is_nil (p : str) : bool := match p with [] => true | _ => false end.
Definition drop_empty (ps : list str) : list str := filter (fun p => negb (is_nil p)) ps.

Definition codec_of_enc (x : enc) : option codec :=
  match x with
  | EncUtf8 => Some CUtf8
  | EncLatin1 => Some CLatin1
  | EncNone => None
  end.

(* outcome of CSVRecordIterator(byte stream, encoding, ...) ; get_all_records ; get_header ; get_warnings.
   BIOError: the run ended in RbqlIOHandlingError because the input is not decodable ('Unable to decode input table as UTF-8',
   get_row_simple's except clause) - or, the reader being lazy, because of a quoted_rfc defect it met before it reached the
   undecodable read: the model fixes the class of the error only, which is what the property promises. *)
Inductive bresult := BRes (r : result) | BIOError.

Definition run_py_bytes (split : str -> list str * bool) (c : cfg) (cs : nat) (e : codec) (raws : list bytes) : bresult :=
  match text_layer e raws with
  | None => BIOError
  | Some tps => BRes (run_py split c cs (drop_empty tps))
  end.
