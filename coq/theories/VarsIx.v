(* VarsIx.v — the second tie of C09 / C18 (task gen2): what harness/translate_fn.py (job `vars`) targets for
   python_string_escape_column_name / query_probably_has_dictionary_variable of rbql-py/rbql/rbql_engine.py and
   js_string_escape_column_name / query_probably_has_dictionary_variable (+ its helper get_all_matches) of rbql-js/rbql.js.
   The index models below are the translator's output on the reviewed sources (translate_fn.py --print ix_ vars py,
   --print jsix_ vars js), read against the sources and committed.  NO proofs in this file (VarsIx_Proofs.v). *)
From RBQL Require Import Base Csv PyStr JsStr ParserVars LikeIx.

(* the one pattern text the translator knows here: a maximal run of  - a-z A-Z 0-9 _ : ; + = ! . , ( ) % ^ # @ & * space ;
   re.findall(text, s) / the exec loop over new RegExp(text, 'g') = the runs in order (ParserVars.segments; modelled, DESIGN 3.2) *)
Inductive rxv := RxDictSeg.
Definition dict_segments (s : str) : list str := segments s [].

Definition ix_python_string_escape_column_name (column_name : str) (quote_char : str) :=
  if ((str_eqb quote_char [34%N]) || (str_eqb quote_char [39%N])) then
    let column_name := (py_replace column_name [92%N] [92%N; 92%N]) in
    let column_name := (py_replace column_name [10%N] [92%N; 110%N]) in
    let column_name := (py_replace column_name [13%N] [92%N; 114%N]) in
    let column_name := (py_replace column_name [9%N] [92%N; 116%N]) in
    if (str_eqb quote_char [34%N]) then
      (Some (py_replace column_name [34%N] [92%N; 34%N]))
    else
      (Some (py_replace column_name [39%N] [92%N; 39%N]))
  else None.

Definition ix_query_probably_has_dictionary_variable (query_text : str) (column_name : str) :=
  let continuous_name_segments := (dict_segments column_name) in
  if (existsb (fun continuous_segment => (negb (py_contains query_text continuous_segment))) continuous_name_segments) then
    false
  else
    true.

Definition jsix_js_string_escape_column_name (column_name : str) (quote_char : str) :=
  let column_name := (py_replace column_name [92%N] [92%N; 92%N]) in
  let column_name := (py_replace column_name [10%N] [92%N; 110%N]) in
  let column_name := (py_replace column_name [13%N] [92%N; 114%N]) in
  let column_name := (py_replace column_name [9%N] [92%N; 116%N]) in
  if (str_eqb quote_char [39%N]) then
    (Some (py_replace column_name [39%N] [92%N; 39%N]))
  else
    if (str_eqb quote_char [34%N]) then
      (Some (py_replace column_name [34%N] [92%N; 34%N]))
    else
      if (str_eqb quote_char [96%N]) then
        (Some (py_replace column_name [96%N] [92%N; 96%N]))
      else None.

Definition jsix_get_all_matches (text : str) :=
  let result := [] in
  let result := fold_left (fun result match_obj =>
      (result ++ [match_obj]))
    (dict_segments text) result in
  result.

Definition jsix_query_probably_has_dictionary_variable (query_text : str) (column_name : str) :=
  let rgx := RxDictSeg in
  let continuous_name_segments := (jsix_get_all_matches column_name) in
  if (existsb (fun continuous_segment => (negb (py_contains query_text continuous_segment))) continuous_name_segments) then
    false
  else
    true.
