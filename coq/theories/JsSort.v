(* JsSort.v - how the JavaScript port sorts (model, no proofs).
   rbql-js/rbql.js:
     function stable_compare(a, b) {                      the comparator of SortedWriter.finish:
         for (var i = 0; i < a.length; i++) {                 unsorted_entries.sort(stable_compare); reverse() for DESC;
             if (a[i] !== b[i])                               then entry[entry.length - 1] is written
                 return a[i] < b[i] ? -1 : 1;             an entry is  sort_key.concat([NR, out_fields])  (select_simple) whose
         }                                                slot length-2 SortedWriter.write overwrites with the ARRIVAL INDEX
     }                                                    (this.unsorted_entries.length at the time of the write)
     function compare_aggregation_keys(a, b) {            the comparator of AggregateWriter.finish:
         if (a === null || b === null) return 0;              Array.from(this.aggregation_keys).sort(compare_aggregation_keys)
         let [ka, kb] = [JSON.parse(a), JSON.parse(b)];   the keys are the JSON texts of the key tuples (JsKey.v; null without
         for (var i = 0; i < ka.length; i++) {            GROUP BY); JsKey_Proofs.v: on faithful tuples the text determines the
             if (ka[i] !== kb[i])                         tuple, so the model works on the parsed tuples
                 return ka[i] < kb[i] ? -1 : 1;
         }
         return 0;
     }
   Array.prototype.sort (ECMA-262) calls the comparator, reads undefined as +0, and promises - for a consistent comparator - a
   permutation of the elements in which no later element compares less than an earlier one.  JsSort_Proofs.v: that determines
   the result, and the result is the stable sort of the reference semantics.

   A key component is a number or a string.  Numbers are the integers (as for JsKey.v: magnitudes that a double holds
   exactly; NaN, -0 and the infinities are not inhabitants), a string is the list of its UTF-16 code units.
     x !== y   IsStrictlyEqual negated: operands of different types are different; numbers by value, strings by code units
     x < y     IsLessThan: two strings by code units (Utf16.units_ltb); otherwise both operands go through ToNumber and the
               numbers are compared, the comparison being false when either is NaN.
   ToNumber of a string (StringToNumber) is modelled on a RESTRICTED domain, enough for the refuted witness and for the
   correspondence cases: the empty string is 0, an optional - followed by one or more ASCII decimal digits is that integer,
   EVERY OTHER string is taken to be NaN.  This is exact unless the string has white space around it, a + sign, a decimal
   point or exponent, a 0x / 0o / 0b prefix, or spells Infinity; the theorems about homogeneous keys never reach ToNumber.

   The loop runs over a.length, the length of its FIRST argument.  Where b has no element (b[i] is undefined) the operands differ
   and  a[i] < undefined  is false (undefined is NaN as a number), so the answer is 1.
   stable_compare is modelled over  key components ++ [arrival index] : the last slot of an entry, the record (an array), is
   reached only by two entries that agree on the key AND on the index, i.e. by an entry compared with itself, where
   a[i] !== b[i] is false for the one array object and the loop ends without a return: undefined.  The model returns
   undefined there.  (For keys of different lengths a slot of one entry would meet the record of the other; the engine builds
   every sort key from the same expression list, the theorems and the correspondence cases keep the key lengths equal.) *)
From RBQL Require Import Base Utf16.
Local Open Scope Z_scope.

Inductive kc : Type :=
  | KNum (z : Z)
  | KStr (units : list N).

(* ToNumber of a string, restricted as described above; None = NaN *)
Fixpoint digits_value (s : list N) (acc : Z) : option Z :=
  match s with
  | [] => Some acc
  | c :: t => if (N.leb 48 c && N.leb c 57)%bool then digits_value t (acc * 10 + Z.of_N (c - 48)) else None
  end.

Definition to_number (s : list N) : option Z :=
  match s with
  | [] => Some 0
  | c :: t =>
      if N.eqb c 45 then
        match t with
        | [] => None
        | _ :: _ => option_map Z.opp (digits_value t 0)
        end
      else digits_value s 0
  end.

(* x !== y *)
Definition js_sne (x y : kc) : bool :=
  match x, y with
  | KNum a, KNum b => negb (Z.eqb a b)
  | KStr s, KStr t => negb (str_eqb s t)
  | _, _ => true
  end.

(* x < y *)
Definition js_lt (x y : kc) : bool :=
  match x, y with
  | KNum a, KNum b => Z.ltb a b
  | KStr s, KStr t => units_ltb s t
  | KNum a, KStr t => match to_number t with Some b => Z.ltb a b | None => false end
  | KStr s, KNum b => match to_number s with Some a => Z.ltb a b | None => false end
  end.

(* the loop of both comparators: None = the loop ended without a return *)
Fixpoint compare_loop (a b : list kc) : option Z :=
  match a with
  | [] => None
  | x :: a' =>
      match b with
      | [] => Some 1
      | y :: b' => if js_sne x y then Some (if js_lt x y then -1 else 1) else compare_loop a' b'
      end
  end.

(* an entry of SortedWriter: key components, arrival index, record *)
Definition entry (R : Type) : Type := (list kc * nat * R)%type.
Definition e_key {R} (e : entry R) : list kc := fst (fst e).
Definition e_idx {R} (e : entry R) : nat := snd (fst e).
Definition e_rec {R} (e : entry R) : R := snd e.

Definition cells {R} (e : entry R) : list kc := e_key e ++ [KNum (Z.of_nat (e_idx e))].

(* None = undefined, which Array.prototype.sort reads as +0 *)
Definition stable_compare {R} (a b : entry R) : option Z := compare_loop (cells a) (cells b).

(* an aggregation key: None = null (no GROUP BY), Some tuple = the parsed JSON text *)
Definition compare_aggregation_keys (a b : option (list kc)) : Z :=
  match a, b with
  | Some ka, Some kb => match compare_loop ka kb with Some v => v | None => 0 end
  | _, _ => 0
  end.

(* the number SortCompare works with *)
Definition sort_value (v : option Z) : Z := match v with Some z => z | None => 0 end.

(* SortedWriter.write: the entries in arrival order, numbered from [n] *)
Fixpoint number_from {R} (n : nat) (l : list (list kc * R)) : list (entry R) :=
  match l with
  | [] => []
  | (k, r) :: t => (k, n, r) :: number_from (S n) t
  end.
Definition arrivals {R} (l : list (list kc * R)) : list (entry R) := number_from 0 l.

(* SortedWriter.finish after the sort: reverse() for DESC, then the records *)
Definition js_output {R} (reverse : bool) (sorted : list (entry R)) : list R :=
  map e_rec (if reverse then rev sorted else sorted).

(* ------------------------------------------------------------------ the order the comparators are shown to implement:
   lexicographic, numbers as integers, strings by code units; components of different kinds are unordered *)
Definition kc_eqb (x y : kc) : bool :=
  match x, y with
  | KNum a, KNum b => Z.eqb a b
  | KStr s, KStr t => str_eqb s t
  | _, _ => false
  end.

Definition kc_ltb (x y : kc) : bool :=
  match x, y with
  | KNum a, KNum b => Z.ltb a b
  | KStr s, KStr t => units_ltb s t
  | _, _ => false
  end.

Fixpoint kcs_eqb (a b : list kc) : bool :=
  match a, b with
  | [], [] => true
  | x :: a', y :: b' => kc_eqb x y && kcs_eqb a' b'
  | _, _ => false
  end.

Fixpoint kcs_ltb (a b : list kc) : bool :=
  match a, b with
  | [], [] => false
  | [], _ :: _ => true
  | _ :: _, [] => false
  | x :: a', y :: b' => kc_ltb x y || (kc_eqb x y && kcs_ltb a' b')
  end.

(* (key, arrival index) lexicographically *)
Definition entry_ltb {R} (a b : entry R) : bool :=
  kcs_ltb (e_key a) (e_key b) || (kcs_eqb (e_key a) (e_key b) && Nat.ltb (e_idx a) (e_idx b)).

(* position-wise homogeneous: the same length and the same kind at every position *)
Fixpoint shape_eqb (a b : list kc) : bool :=
  match a, b with
  | [], [] => true
  | KNum _ :: a', KNum _ :: b' => shape_eqb a' b'
  | KStr _ :: a', KStr _ :: b' => shape_eqb a' b'
  | _, _ => false
  end.
