(* JsSort_Proofs.v - whatever algorithm Array.prototype.sort runs, rbql-js sorts as the reference semantics do.
   1. sorted_perm_unique / ecma_sorted_perm_unique: a sorted arrangement of given elements under a strict total order is unique
      (no algorithm is mentioned: any two sorted permutations are equal).
   2. stable_compare_lex / stable_compare_total_order: on entries with position-wise homogeneous keys stable_compare IS the
      lexicographic order on (key, arrival index), numbers as integers and strings by code units; with pairwise distinct
      arrival indices that is a strict total order on the entries.
   3. js_sort_is_stable_sort: any arrangement of the numbered entries that ECMA-262 allows Array.prototype.sort to return
      (a permutation in which no later entry compares less than an earlier one) yields the records of Writers.stable_sort,
      the reference stable sort; DESC yields their reverse.
   4. js_group_order: the same for compare_aggregation_keys on distinct homogeneous key tuples against Agg.sort_keys.
   5. stable_compare_mixed_refuted: with a number and strings in one key position the comparator is not transitive. *)
From RBQL Require Import Base Value Value_Proofs Writers Sort_Proofs Agg Utf16 Utf16_Proofs JsSort.
From Coq Require Import Permutation Sorted.

(* ------------------------------------------------------------------ 1. uniqueness of the sorted arrangement *)
Section Unique.
Context {A : Type} (ltb : A -> A -> bool).
Let lt (a b : A) : Prop := ltb a b = true.
(* ECMA-262's guarantee: no later element compares less than an earlier one *)
Let noinv (a b : A) : Prop := ltb b a = false.

Lemma sorted_strongly (l : list A) :
  (forall a b c, In a l -> In b l -> In c l -> lt a b -> lt b c -> lt a c) ->
  Sorted lt l -> StronglySorted lt l.
Proof.
  induction l as [|x t IH]; intros Htr Hs; [constructor|].
  inversion Hs as [|? ? Hst Hhd]; subst.
  assert (St : StronglySorted lt t).
  { apply IH; [|exact Hst]. intros a b c Ia Ib Ic. apply Htr; right; assumption. }
  constructor; [exact St|].
  destruct t as [|y u]; [constructor|].
  inversion Hhd as [|? ? Hxy]; subst. inversion St as [|? ? _ Hy]; subst.
  constructor; [exact Hxy|]. rewrite Forall_forall in *. intros z Hz.
  apply (Htr x y z); [left; reflexivity | right; left; reflexivity | right; right; exact Hz | exact Hxy | apply Hy; exact Hz].
Qed.

Lemma strongly_sorted_perm_unique : forall l1 l2 : list A,
  (forall a, In a l1 -> ltb a a = false) ->
  (forall a b c, In a l1 -> In b l1 -> In c l1 -> lt a b -> lt b c -> lt a c) ->
  Permutation l1 l2 -> StronglySorted lt l1 -> StronglySorted lt l2 -> l1 = l2.
Proof.
  induction l1 as [|x t1 IH]; intros l2 Hir Htr HP S1 S2.
  - apply Permutation_nil in HP. subst. reflexivity.
  - destruct l2 as [|y t2]; [symmetry in HP; apply Permutation_nil in HP; discriminate|].
    inversion S1 as [|? ? S1t Hx]; subst. inversion S2 as [|? ? S2t Hy]; subst.
    assert (Iy : In y (x :: t1)) by (apply (Permutation_in y (Permutation_sym HP)); left; reflexivity).
    assert (Ix : In x (y :: t2)) by (apply (Permutation_in x HP); left; reflexivity).
    assert (E : x = y).
    { destruct Iy as [E|Iy]; [exact E|]. destruct Ix as [E|Ix]; [symmetry; exact E|]. exfalso.
      rewrite Forall_forall in Hx, Hy. pose proof (Hx y Iy) as Lxy. pose proof (Hy x Ix) as Lyx.
      assert (Lxx : lt x x).
      { apply (Htr x y x); [left; reflexivity | right; exact Iy | left; reflexivity | exact Lxy | exact Lyx]. }
      unfold lt in Lxx. rewrite (Hir x (or_introl eq_refl)) in Lxx. discriminate. }
    subst y. f_equal. apply IH; try assumption.
    + intros a Ia. apply Hir. right. exact Ia.
    + intros a b c Ia Ib Ic. apply Htr; right; assumption.
    + apply (Permutation_cons_inv HP).
Qed.

(* the guarantee of ECMA-262 (no inversion) determines the arrangement as soon as the order is total *)
Lemma noinv_perm_unique : forall l1 l2 : list A,
  (forall a b, In a l1 -> In b l1 -> a = b \/ lt a b \/ lt b a) ->
  Permutation l1 l2 -> StronglySorted noinv l1 -> StronglySorted noinv l2 -> l1 = l2.
Proof.
  induction l1 as [|x t1 IH]; intros l2 Htot HP S1 S2.
  - apply Permutation_nil in HP. subst. reflexivity.
  - destruct l2 as [|y t2]; [symmetry in HP; apply Permutation_nil in HP; discriminate|].
    inversion S1 as [|? ? S1t Hx]; subst. inversion S2 as [|? ? S2t Hy]; subst.
    assert (Iy : In y (x :: t1)) by (apply (Permutation_in y (Permutation_sym HP)); left; reflexivity).
    assert (Ix : In x (y :: t2)) by (apply (Permutation_in x HP); left; reflexivity).
    assert (E : x = y).
    { destruct Iy as [E|Iy]; [exact E|]. destruct Ix as [E|Ix]; [symmetry; exact E|].
      rewrite Forall_forall in Hx, Hy. pose proof (Hx y Iy) as Nxy. pose proof (Hy x Ix) as Nyx. unfold noinv in Nxy, Nyx.
      destruct (Htot x y (or_introl eq_refl) (or_intror Iy)) as [E|[L|L]]; [exact E| |]; unfold lt in L; congruence. }
    subst y. f_equal. apply IH; try assumption.
    + intros a b Ia Ib. apply Htot; right; assumption.
    + apply (Permutation_cons_inv HP).
Qed.

(* a strictly sorted list has no inversion *)
Lemma strongly_sorted_noinv (l : list A) :
  (forall a, In a l -> ltb a a = false) ->
  (forall a b c, In a l -> In b l -> In c l -> lt a b -> lt b c -> lt a c) ->
  StronglySorted lt l -> StronglySorted noinv l.
Proof.
  induction l as [|x t IH]; intros Hir Htr S; [constructor|]. inversion S as [|? ? St Hx]; subst.
  constructor.
  - apply IH; [intros a Ia; apply Hir; right; exact Ia | intros a b c Ia Ib Ic; apply Htr; right; assumption | exact St].
  - rewrite Forall_forall in *. intros y Iy. unfold noinv. destruct (ltb y x) eqn:E; [|reflexivity]. exfalso.
    assert (Lxx : lt x x).
    { apply (Htr x y x); [left; reflexivity | right; exact Iy | left; reflexivity | apply Hx; exact Iy | exact E]. }
    unfold lt in Lxx. rewrite (Hir x (or_introl eq_refl)) in Lxx. discriminate.
Qed.
End Unique.

(* (a) stated for a strict total order; uniqueness itself uses irreflexivity and transitivity only - totality is what makes a
   sorted arrangement exist, and what decides under the weaker reading of sorted below *)
Theorem sorted_perm_unique : forall (A : Type) (ltb : A -> A -> bool) (l l1 l2 : list A),
  (forall a, In a l -> ltb a a = false) ->
  (forall a b c, In a l -> In b l -> In c l -> ltb a b = true -> ltb b c = true -> ltb a c = true) ->
  (forall a b, In a l -> In b l -> a = b \/ ltb a b = true \/ ltb b a = true) ->
  Permutation l l1 -> Permutation l l2 ->
  Sorted (fun a b => ltb a b = true) l1 -> Sorted (fun a b => ltb a b = true) l2 ->
  l1 = l2.
Proof.
  intros A ltb l l1 l2 Hir Htr _ P1 P2 S1 S2.
  assert (In1 : forall a, In a l1 -> In a l) by (intros a; apply Permutation_in; symmetry; exact P1).
  assert (In2 : forall a, In a l2 -> In a l) by (intros a; apply Permutation_in; symmetry; exact P2).
  apply (strongly_sorted_perm_unique ltb).
  - intros a Ia. apply Hir. auto.
  - intros a b c Ia Ib Ic. apply Htr; auto.
  - transitivity l; [symmetry; exact P1 | exact P2].
  - apply sorted_strongly; [|exact S1]. intros a b c Ia Ib Ic. apply Htr; auto.
  - apply sorted_strongly; [|exact S2]. intros a b c Ia Ib Ic. apply Htr; auto.
Qed.

(* the same from what ECMA-262 promises about the result of Array.prototype.sort: a permutation without inversion.
   Here totality alone decides. *)
Theorem ecma_sorted_perm_unique : forall (A : Type) (ltb : A -> A -> bool) (l l1 l2 : list A),
  (forall a b, In a l -> In b l -> a = b \/ ltb a b = true \/ ltb b a = true) ->
  Permutation l l1 -> Permutation l l2 ->
  StronglySorted (fun a b => ltb b a = false) l1 -> StronglySorted (fun a b => ltb b a = false) l2 ->
  l1 = l2.
Proof.
  intros A ltb l l1 l2 Htot P1 P2 S1 S2.
  assert (In1 : forall a, In a l1 -> In a l) by (intros a; apply Permutation_in; symmetry; exact P1).
  apply (noinv_perm_unique ltb).
  - intros a b Ia Ib. apply Htot; auto.
  - transitivity l; [symmetry; exact P1 | exact P2].
  - exact S1.
  - exact S2.
Qed.

(* ------------------------------------------------------------------ 2. the order of key components, keys and entries *)
Lemma units_irrefl s : units_ltb s s = false.
Proof. rewrite units_ltb_str_ltb. apply str_ltb_irrefl. Qed.

Lemma units_trans a b c : units_ltb a b = true -> units_ltb b c = true -> units_ltb a c = true.
Proof. rewrite !units_ltb_str_ltb. apply str_ltb_trans. Qed.

Lemma units_trichotomy a b : units_ltb a b = true \/ a = b \/ units_ltb b a = true.
Proof. rewrite !units_ltb_str_ltb. apply str_trichotomy. Qed.

Lemma kc_eqb_eq x y : kc_eqb x y = true <-> x = y.
Proof.
  destruct x as [a|s], y as [b|t]; cbn; split; intro H; try discriminate.
  - apply Z.eqb_eq in H. subst. reflexivity.
  - injection H as ->. apply Z.eqb_refl.
  - apply str_eqb_true in H. subst. reflexivity.
  - injection H as ->. apply str_eqb_refl.
Qed.

Lemma kc_eqb_refl x : kc_eqb x x = true.
Proof. apply kc_eqb_eq. reflexivity. Qed.

Lemma kc_ltb_irrefl x : kc_ltb x x = false.
Proof. destruct x; cbn; [apply Z.ltb_irrefl | apply units_irrefl]. Qed.

Lemma kc_ltb_trans x y z : kc_ltb x y = true -> kc_ltb y z = true -> kc_ltb x z = true.
Proof.
  destruct x, y, z; cbn; try discriminate.
  - rewrite !Z.ltb_lt. lia.
  - apply units_trans.
Qed.

(* two components of one kind are comparable *)
Definition same_kind (x y : kc) : bool :=
  match x, y with KNum _, KNum _ | KStr _, KStr _ => true | _, _ => false end.

Lemma kc_trichotomy x y : same_kind x y = true -> kc_ltb x y = true \/ x = y \/ kc_ltb y x = true.
Proof.
  destruct x as [a|s], y as [b|t]; cbn; try discriminate; intros _.
  - destruct (Z.lt_trichotomy a b) as [H|[H|H]]; [left; apply Z.ltb_lt; exact H | right; left; subst; reflexivity | right; right; apply Z.ltb_lt; exact H].
  - destruct (units_trichotomy s t) as [H|[H|H]]; [left; exact H | right; left; subst; reflexivity | right; right; exact H].
Qed.

Lemma kcs_eqb_eq : forall a b, kcs_eqb a b = true <-> a = b.
Proof.
  induction a as [|x a IH]; destruct b as [|y b]; cbn; split; intro H; try discriminate; try reflexivity.
  - apply andb_true_iff in H. destruct H as [H1 H2]. apply kc_eqb_eq in H1. apply IH in H2. subst. reflexivity.
  - injection H as -> ->. rewrite kc_eqb_refl. cbn. apply IH. reflexivity.
Qed.

Lemma kcs_eqb_refl a : kcs_eqb a a = true.
Proof. apply kcs_eqb_eq. reflexivity. Qed.

Lemma kcs_ltb_irrefl : forall a, kcs_ltb a a = false.
Proof. induction a as [|x a IH]; cbn; [reflexivity|]. rewrite kc_ltb_irrefl, kc_eqb_refl, IH. reflexivity. Qed.

Lemma kcs_ltb_trans : forall a b c, kcs_ltb a b = true -> kcs_ltb b c = true -> kcs_ltb a c = true.
Proof.
  induction a as [|x a IH]; destruct b as [|y b], c as [|z c]; cbn; intros H1 H2; try discriminate; try reflexivity.
  apply orb_true_iff in H1. apply orb_true_iff in H2. apply orb_true_iff.
  destruct H1 as [H1|H1], H2 as [H2|H2].
  - left. apply (kc_ltb_trans x y z); assumption.
  - apply andb_true_iff in H2. destruct H2 as [E _]. apply kc_eqb_eq in E. subst z. left. exact H1.
  - apply andb_true_iff in H1. destruct H1 as [E _]. apply kc_eqb_eq in E. subst y. left. exact H2.
  - apply andb_true_iff in H1. apply andb_true_iff in H2. destruct H1 as [E1 L1], H2 as [E2 L2].
    apply kc_eqb_eq in E1. apply kc_eqb_eq in E2. subst. right. rewrite kc_eqb_refl. cbn. apply (IH b c); assumption.
Qed.

Lemma shape_cons x a y b : shape_eqb (x :: a) (y :: b) = same_kind x y && shape_eqb a b.
Proof. destruct x, y; reflexivity. Qed.

Lemma shape_eqb_refl : forall a, shape_eqb a a = true.
Proof. induction a as [|[z|s] a IH]; cbn; auto. Qed.

Lemma shape_eqb_sym : forall a b, shape_eqb a b = shape_eqb b a.
Proof. induction a as [|[z|s] a IH]; destruct b as [|[w|t] b]; cbn; auto. Qed.

Lemma shape_eqb_length : forall a b, shape_eqb a b = true -> length a = length b.
Proof.
  induction a as [|x a IH]; destruct b as [|y b]; cbn [length]; intro H; try reflexivity;
    try discriminate H; try (destruct x; discriminate H).
  rewrite shape_cons in H. apply andb_true_iff in H. destruct H as [_ H]. f_equal. apply IH. exact H.
Qed.

Lemma kcs_trichotomy : forall a b, shape_eqb a b = true -> kcs_ltb a b = true \/ a = b \/ kcs_ltb b a = true.
Proof.
  induction a as [|x a IH]; destruct b as [|y b]; intro H; try (right; left; reflexivity); try (destruct x; discriminate H).
  - discriminate H.
  - rewrite shape_cons in H. apply andb_true_iff in H. destruct H as [K H]. cbn [kcs_ltb].
    destruct (kc_trichotomy x y K) as [L|[E|L]].
    + left. rewrite L. reflexivity.
    + subst y. rewrite kc_ltb_irrefl, kc_eqb_refl. cbn. destruct (IH b H) as [L|[E|L]]; [left; exact L | right; left; subst; reflexivity | right; right; exact L].
    + right. right. rewrite L. reflexivity.
Qed.

(* the loop of the comparators is the lexicographic order on position-wise homogeneous lists *)
Lemma same_kind_sne x y : same_kind x y = true -> js_sne x y = negb (kc_eqb x y).
Proof. destruct x, y; cbn; try discriminate; reflexivity. Qed.

Lemma same_kind_lt x y : same_kind x y = true -> js_lt x y = kc_ltb x y.
Proof. destruct x, y; cbn; try discriminate; reflexivity. Qed.

Definition lex3 (lt gt : bool) : option Z := if lt then Some (-1)%Z else if gt then Some 1%Z else None.

Lemma compare_loop_lex : forall a b, shape_eqb a b = true ->
  compare_loop a b = lex3 (kcs_ltb a b) (kcs_ltb b a).
Proof.
  induction a as [|x a IH]; destruct b as [|y b]; intro H; try reflexivity; try discriminate H; try (destruct x; discriminate H).
  rewrite shape_cons in H. apply andb_true_iff in H. destruct H as [K H].
  cbn [compare_loop kcs_ltb]. rewrite (same_kind_sne x y K), (same_kind_lt x y K).
  destruct (kc_eqb x y) eqn:E.
  - apply kc_eqb_eq in E. subst y. rewrite kc_ltb_irrefl, kc_eqb_refl. cbn. apply IH. exact H.
  - cbn [negb]. assert (E' : kc_eqb y x = false).
    { destruct (kc_eqb y x) eqn:E2; [|reflexivity]. apply kc_eqb_eq in E2. subst y. rewrite kc_eqb_refl in E. discriminate. }
    rewrite E'. cbn [andb]. rewrite !orb_false_r.
    destruct (kc_trichotomy x y K) as [L|[Q|L]].
    + rewrite L. reflexivity.
    + subst y. rewrite kc_eqb_refl in E. discriminate.
    + destruct (kc_ltb x y) eqn:L2.
      * pose proof (kc_ltb_trans x y x L2 L) as C. rewrite kc_ltb_irrefl in C. discriminate.
      * rewrite L. reflexivity.
Qed.

(* key ++ [index] *)
Lemma kcs_ltb_app : forall a b u v, length a = length b ->
  kcs_ltb (a ++ u) (b ++ v) = kcs_ltb a b || (kcs_eqb a b && kcs_ltb u v).
Proof.
  induction a as [|x a IH]; destruct b as [|y b]; intros u v HL; try discriminate HL.
  - reflexivity.
  - cbn [app kcs_ltb kcs_eqb]. injection HL as HL. rewrite (IH b u v HL).
    destruct (kc_ltb x y); [reflexivity|]. cbn [orb]. destruct (kc_eqb x y); reflexivity.
Qed.

Lemma shape_eqb_app : forall a b u v, shape_eqb a b = true -> shape_eqb u v = true -> shape_eqb (a ++ u) (b ++ v) = true.
Proof.
  induction a as [|x a IH]; destruct b as [|y b]; intros u v H1 H2; try (destruct x; discriminate H1); try discriminate H1.
  - exact H2.
  - cbn [app]. rewrite shape_cons in *. apply andb_true_iff in H1. destruct H1 as [K H1]. rewrite K. cbn. apply IH; assumption.
Qed.

Lemma idx_ltb (i j : nat) : kcs_ltb [KNum (Z.of_nat i)] [KNum (Z.of_nat j)] = Nat.ltb i j.
Proof.
  cbn [kcs_ltb kc_ltb kc_eqb]. rewrite andb_false_r, orb_false_r.
  destruct (Nat.ltb_spec i j); [apply Z.ltb_lt | apply Z.ltb_ge]; lia.
Qed.

Lemma cells_ltb {R} (a b : entry R) : length (e_key a) = length (e_key b) -> kcs_ltb (cells a) (cells b) = entry_ltb a b.
Proof. intro HL. unfold cells, entry_ltb. rewrite (kcs_ltb_app _ _ _ _ HL), idx_ltb. reflexivity. Qed.

(* (b) stable_compare IS the lexicographic order on (key, arrival index) *)
Theorem stable_compare_lex : forall (R : Type) (a b : entry R), shape_eqb (e_key a) (e_key b) = true ->
  stable_compare a b = lex3 (entry_ltb a b) (entry_ltb b a).
Proof.
  intros R a b H. unfold stable_compare.
  rewrite compare_loop_lex by (apply shape_eqb_app; [exact H | reflexivity]).
  pose proof (shape_eqb_length _ _ H) as HL.
  rewrite (cells_ltb a b HL), (cells_ltb b a (eq_sym HL)). reflexivity.
Qed.

Lemma entry_ltb_irrefl {R} (a : entry R) : entry_ltb a a = false.
Proof. unfold entry_ltb. rewrite kcs_ltb_irrefl, kcs_eqb_refl, Nat.ltb_irrefl. reflexivity. Qed.

Lemma entry_ltb_trans {R} (a b c : entry R) : entry_ltb a b = true -> entry_ltb b c = true -> entry_ltb a c = true.
Proof.
  unfold entry_ltb. intros H1 H2. apply orb_true_iff in H1. apply orb_true_iff in H2. apply orb_true_iff.
  destruct H1 as [H1|H1], H2 as [H2|H2].
  - left. apply (kcs_ltb_trans _ _ _ H1 H2).
  - apply andb_true_iff in H2. destruct H2 as [E _]. apply kcs_eqb_eq in E. rewrite <- E. left. exact H1.
  - apply andb_true_iff in H1. destruct H1 as [E _]. apply kcs_eqb_eq in E. rewrite E. left. exact H2.
  - apply andb_true_iff in H1. apply andb_true_iff in H2. destruct H1 as [E1 L1], H2 as [E2 L2].
    apply kcs_eqb_eq in E1. apply kcs_eqb_eq in E2. right. rewrite E1, E2, kcs_eqb_refl. cbn.
    apply Nat.ltb_lt in L1. apply Nat.ltb_lt in L2. apply Nat.ltb_lt. lia.
Qed.

Lemma entry_trichotomy {R} (a b : entry R) : shape_eqb (e_key a) (e_key b) = true ->
  entry_ltb a b = true \/ (e_key a = e_key b /\ e_idx a = e_idx b) \/ entry_ltb b a = true.
Proof.
  intro H. unfold entry_ltb. destruct (kcs_trichotomy _ _ H) as [L|[E|L]].
  - left. rewrite L. reflexivity.
  - rewrite E, kcs_ltb_irrefl, kcs_eqb_refl. cbn.
    destruct (Nat.lt_trichotomy (e_idx a) (e_idx b)) as [T|[T|T]].
    + left. apply Nat.ltb_lt. exact T.
    + right. left. split; [reflexivity | exact T].
    + right. right. apply Nat.ltb_lt. exact T.
  - right. right. rewrite L. reflexivity.
Qed.

(* distinct arrival indices identify the entries of a list *)
Lemma idx_identifies {R} (l : list (entry R)) : NoDup (map e_idx l) ->
  forall a b, In a l -> In b l -> e_idx a = e_idx b -> a = b.
Proof.
  induction l as [|x t IH]; intros ND a b Ia Ib E; [destruct Ia|].
  cbn [map] in ND. inversion ND as [|? ? Nx NDt]; subst.
  destruct Ia as [<-|Ia], Ib as [<-|Ib].
  - reflexivity.
  - exfalso. apply Nx. rewrite E. apply in_map. exact Ib.
  - exfalso. apply Nx. rewrite <- E. apply in_map. exact Ia.
  - apply (IH NDt); assumption.
Qed.

Definition homogeneous {R} (l : list (entry R)) : Prop :=
  forall a b, In a l -> In b l -> shape_eqb (e_key a) (e_key b) = true.

Theorem stable_compare_total_order : forall (R : Type) (l : list (entry R)),
  homogeneous l -> NoDup (map e_idx l) ->
  (* it is the lexicographic order on (key, index) ... *)
  (forall a b, In a l -> In b l -> (stable_compare a b = Some (-1)%Z <-> entry_ltb a b = true)) /\
  (* ... a consistent comparator: 1 is the converse of -1, undefined only for an entry and itself ... *)
  (forall a b, In a l -> In b l -> (stable_compare a b = Some 1%Z <-> stable_compare b a = Some (-1)%Z)) /\
  (forall a b, In a l -> In b l -> (stable_compare a b = None <-> a = b)) /\
  (* ... and a strict total order *)
  (forall a, In a l -> stable_compare a a <> Some (-1)%Z) /\
  (forall a b c, In a l -> In b l -> In c l ->
     stable_compare a b = Some (-1)%Z -> stable_compare b c = Some (-1)%Z -> stable_compare a c = Some (-1)%Z) /\
  (forall a b, In a l -> In b l -> a = b \/ stable_compare a b = Some (-1)%Z \/ stable_compare b a = Some (-1)%Z).
Proof.
  intros R l Hh ND.
  assert (LT : forall a b, In a l -> In b l -> (stable_compare a b = Some (-1)%Z <-> entry_ltb a b = true)).
  { intros a b Ia Ib. rewrite (stable_compare_lex R a b (Hh a b Ia Ib)). unfold lex3.
    destruct (entry_ltb a b); [split; reflexivity|]. destruct (entry_ltb b a); split; discriminate. }
  assert (ASYM : forall a b : entry R, entry_ltb a b = true -> entry_ltb b a = false).
  { intros a b H. destruct (entry_ltb b a) eqn:E; [|reflexivity].
    pose proof (entry_ltb_trans a b a H E) as C. rewrite entry_ltb_irrefl in C. discriminate. }
  split; [exact LT|]. split; [|split; [|split; [|split]]].
  - intros a b Ia Ib. rewrite (LT b a Ib Ia). rewrite (stable_compare_lex R a b (Hh a b Ia Ib)). unfold lex3.
    destruct (entry_ltb a b) eqn:E1.
    + rewrite (ASYM a b E1). split; discriminate.
    + destruct (entry_ltb b a); split; try reflexivity; discriminate.
  - intros a b Ia Ib. rewrite (stable_compare_lex R a b (Hh a b Ia Ib)). unfold lex3. split.
    + intro H. destruct (entry_trichotomy a b (Hh a b Ia Ib)) as [L|[[_ E]|L]].
      * rewrite L in H. discriminate.
      * apply (idx_identifies l ND a b Ia Ib E).
      * rewrite L in H. destruct (entry_ltb a b); discriminate.
    + intros <-. rewrite entry_ltb_irrefl. reflexivity.
  - intros a Ia H. apply (LT a a Ia Ia) in H. rewrite entry_ltb_irrefl in H. discriminate.
  - intros a b c Ia Ib Ic H1 H2. apply (LT a c Ia Ic). apply (LT a b Ia Ib) in H1. apply (LT b c Ib Ic) in H2.
    apply (entry_ltb_trans a b c H1 H2).
  - intros a b Ia Ib. destruct (entry_trichotomy a b (Hh a b Ia Ib)) as [L|[[_ E]|L]].
    + right. left. apply (LT a b Ia Ib). exact L.
    + left. apply (idx_identifies l ND a b Ia Ib E).
    + right. right. apply (LT b a Ib Ia). exact L.
Qed.

(* ------------------------------------------------------------------ 3. insertion sort, generically *)
Section Insert.
Context {A : Type} (leb : A -> A -> bool) (lt : A -> A -> Prop).

Fixpoint ins (e : A) (l : list A) : list A :=
  match l with
  | [] => [e]
  | h :: t => if leb e h then e :: h :: t else h :: ins e t
  end.
Definition isort (l : list A) : list A := fold_right ins [] l.

Lemma ins_perm e l : Permutation (ins e l) (e :: l).
Proof.
  induction l as [|h t IH]; cbn; [reflexivity|].
  destruct (leb e h); [reflexivity|]. rewrite IH. apply perm_swap.
Qed.

Lemma isort_perm l : Permutation (isort l) l.
Proof. induction l as [|e l IH]; cbn; [reflexivity|]. rewrite ins_perm. constructor. exact IH. Qed.

(* where the insertion puts e relative to x is where the order wants it *)
Definition placed (e x : A) : Prop := if leb e x then lt e x else lt x e.

Hypothesis lt_trans : forall x y z, lt x y -> lt y z -> lt x z.

Lemma ins_sorted e l : Forall (placed e) l -> StronglySorted lt l -> StronglySorted lt (ins e l).
Proof.
  intros HP HS. induction HS as [|h t HS IH Hh]; cbn.
  - constructor; constructor.
  - inversion HP as [|? ? Ph Pt]; subst. unfold placed in Ph. destruct (leb e h) eqn:E.
    + constructor; [constructor; assumption|]. constructor; [exact Ph|].
      rewrite Forall_forall in *. intros x Hx. apply (lt_trans e h x); [exact Ph | apply Hh; exact Hx].
    + constructor; [apply IH; exact Pt|].
      eapply Permutation_Forall; [symmetry; apply ins_perm|]. constructor; assumption.
Qed.

Lemma isort_sorted l : ForallOrdPairs placed l -> StronglySorted lt (isort l).
Proof.
  induction 1 as [|e t He Ht IH]; cbn; [constructor|].
  apply ins_sorted; [|exact IH]. eapply Permutation_Forall; [symmetry; apply isort_perm | exact He].
Qed.
End Insert.

Lemma ins_map {A B : Type} (f : A -> B) (leb : B -> B -> bool) e l :
  map f (ins (fun x y => leb (f x) (f y)) e l) = ins leb (f e) (map f l).
Proof. induction l as [|h t IH]; cbn; [reflexivity|]. destruct (leb (f e) (f h)); cbn; [reflexivity|]. rewrite IH. reflexivity. Qed.

Lemma isort_map {A B : Type} (f : A -> B) (leb : B -> B -> bool) l :
  map f (isort (fun x y => leb (f x) (f y)) l) = isort leb (map f l).
Proof.
  induction l as [|e l IH]; [reflexivity|].
  change (isort (fun x y => leb (f x) (f y)) (e :: l)) with (ins (fun x y => leb (f x) (f y)) e (isort (fun x y => leb (f x) (f y)) l)).
  rewrite ins_map, IH. reflexivity.
Qed.

Lemma stable_sort_isort es : stable_sort es = isort (fun a b => key_leb (fst a) (fst b)) es.
Proof.
  induction es as [|e es IH]; [reflexivity|]. cbn [stable_sort isort fold_right]. fold (stable_sort es).
  fold (isort (fun a b : key * row => key_leb (fst a) (fst b)) es). rewrite <- IH.
  generalize (stable_sort es). intro l. induction l as [|h t IHl]; cbn; [reflexivity|]. rewrite IHl. reflexivity.
Qed.

Lemma sort_keys_isort ks : sort_keys ks = isort key_leb ks.
Proof.
  induction ks as [|k ks IH]; [reflexivity|]. cbn [sort_keys isort fold_right]. fold (sort_keys ks). fold (isort key_leb ks).
  rewrite <- IH. generalize (sort_keys ks). intro l. induction l as [|h t IHl]; cbn; [reflexivity|]. rewrite IHl. reflexivity.
Qed.

Lemma strongly_sorted_map {A B : Type} (f : A -> B) (R : B -> B -> Prop) l :
  StronglySorted (fun x y => R (f x) (f y)) l -> StronglySorted R (map f l).
Proof.
  induction 1 as [|h t HS IH Hh]; cbn; constructor; [exact IH|].
  rewrite Forall_forall in *. intros y Hy. apply in_map_iff in Hy. destruct Hy as [x [<- Hx]]. apply Hh. exact Hx.
Qed.

Lemma strongly_sorted_impl_in {A : Type} (R R' : A -> A -> Prop) l :
  (forall a b, In a l -> In b l -> R a b -> R' a b) -> StronglySorted R l -> StronglySorted R' l.
Proof.
  intros H HS. induction HS as [|h t HS IH Hh]; constructor.
  - apply IH. intros a b Ia Ib. apply H; right; assumption.
  - rewrite Forall_forall in *. intros x Hx. apply H; [left; reflexivity | right; exact Hx | apply Hh; exact Hx].
Qed.

(* ------------------------------------------------------------------ 4. the reference keys as JavaScript sees them *)
(* an integer is a number, a string is its UTF-16 encoding; the other atoms are outside the domain of the theorems *)
Definition enc_atom (a : atom) : kc :=
  match a with
  | AInt z => KNum z
  | AStr s => KStr (utf16_encode s)
  | _ => KNum 0
  end.
Definition enc_key (k : key) : list kc := map enc_atom k.

(* the entries of SortedWriter for the offers (sort key, row) of the reference engine, in arrival order *)
Definition js_entries (es : list (key * row)) : list (entry row) :=
  arrivals (map (fun e => (enc_key (fst e), snd e)) es).

Lemma number_from_in {R} : forall (l : list (list kc * R)) n a,
  In a (number_from n l) -> In (e_key a, e_rec a) l /\ n <= e_idx a.
Proof.
  induction l as [|[k r] t IH]; intros n a H; [destruct H|]. cbn [number_from] in H. destruct H as [<-|H].
  - split; [left; reflexivity | cbn; lia].
  - destruct (IH (S n) a H) as [H1 H2]. split; [right; exact H1 | lia].
Qed.

Lemma number_from_idx {R} : forall (l : list (list kc * R)) n, map e_idx (number_from n l) = seq n (length l).
Proof. induction l as [|[k r] t IH]; intro n; [reflexivity|]. cbn [number_from map length seq]. rewrite IH. reflexivity. Qed.

Fixpoint tag_from (n : nat) (es : list (key * row)) : list (nat * (key * row)) :=
  match es with
  | [] => []
  | e :: t => (n, e) :: tag_from (S n) t
  end.
Definition enc_tagged (x : nat * (key * row)) : entry row := (enc_key (fst (snd x)), fst x, snd (snd x)).

Lemma enc_tag_from : forall es n,
  map enc_tagged (tag_from n es) = number_from n (map (fun e => (enc_key (fst e), snd e)) es).
Proof. induction es as [|[k r] t IH]; intro n; [reflexivity|]. cbn [tag_from map number_from fst snd]. rewrite IH. reflexivity. Qed.

Lemma untag : forall es n, map snd (tag_from n es) = es.
Proof. induction es as [|e t IH]; intro n; [reflexivity|]. cbn. rewrite IH. reflexivity. Qed.

Lemma tag_from_in : forall es n x, In x (tag_from n es) -> In (snd x) es /\ n <= fst x.
Proof.
  induction es as [|e t IH]; intros n x H; [destruct H|]. destruct H as [<-|H].
  - split; [left; reflexivity | cbn; lia].
  - destruct (IH (S n) x H) as [H1 H2]. split; [right; exact H1 | lia].
Qed.

Section Reference.
(* a class of strings on which the order of the code units is the order of the code points (Utf16_Proofs.v) *)
Variable okstr : str -> bool.
Hypothesis agree : forall s t, okstr s = true -> okstr t = true ->
  units_ltb (utf16_encode s) (utf16_encode t) = str_ltb s t.

Definition atom_ok (a : atom) : bool :=
  match a with AInt _ => true | AStr s => okstr s | _ => false end.
Definition key_ok (k : key) : bool := forallb atom_ok k.

Lemma enc_str_eqb s t : okstr s = true -> okstr t = true -> str_eqb (utf16_encode s) (utf16_encode t) = str_eqb s t.
Proof.
  intros Hs Ht. destruct (str_trichotomy s t) as [L|[E|L]].
  - assert (N1 : str_eqb s t = false).
    { destruct (str_eqb s t) eqn:E; [|reflexivity]. apply str_eqb_true in E. subst. rewrite str_ltb_irrefl in L. discriminate. }
    rewrite N1. destruct (str_eqb (utf16_encode s) (utf16_encode t)) eqn:E; [|reflexivity]. apply str_eqb_true in E.
    rewrite <- (agree s t Hs Ht), E, units_irrefl in L. discriminate.
  - subst. rewrite !str_eqb_refl. reflexivity.
  - assert (N1 : str_eqb s t = false).
    { destruct (str_eqb s t) eqn:E; [|reflexivity]. apply str_eqb_true in E. subst. rewrite str_ltb_irrefl in L. discriminate. }
    rewrite N1. destruct (str_eqb (utf16_encode s) (utf16_encode t)) eqn:E; [|reflexivity]. apply str_eqb_true in E.
    rewrite <- (agree t s Ht Hs), E, units_irrefl in L. discriminate.
Qed.

(* the reference comparison of two keys is the lexicographic order of their JavaScript images *)
Lemma key_leb_enc : forall a b, key_ok a = true -> key_ok b = true -> shape_eqb (enc_key a) (enc_key b) = true ->
  key_leb a b = negb (kcs_ltb (enc_key b) (enc_key a)).
Proof.
  induction a as [|x a IH]; destruct b as [|y b]; intros Ha Hb Hs.
  - reflexivity.
  - discriminate Hs.
  - cbn in Hs. destruct (enc_atom x); discriminate Hs.
  - cbn [key_ok forallb] in Ha, Hb. apply andb_true_iff in Ha, Hb. destruct Ha as [Hx Ha], Hb as [Hy Hb].
    cbn [enc_key map] in Hs. rewrite shape_cons in Hs. apply andb_true_iff in Hs. destruct Hs as [K Hs].
    fold (enc_key a) in Hs. fold (enc_key b) in Hs. specialize (IH b Ha Hb Hs).
    destruct x as [| |zx|sx|]; try discriminate Hx; destruct y as [| |zy|sy|]; try discriminate Hy; try discriminate K.
    + cbn [key_leb enc_key map enc_atom kcs_ltb kc_ltb kc_eqb]. fold (enc_key a). fold (enc_key b).
      rewrite atom_eqb_int, atom_leb_int. rewrite (Z.eqb_sym zy zx). destruct (Z.eqb_spec zx zy) as [E|E].
      * subst. rewrite Z.ltb_irrefl. cbn. exact IH.
      * cbn [andb]. rewrite orb_false_r. destruct (Z.leb_spec zx zy), (Z.ltb_spec zy zx); try reflexivity; lia.
    + cbn [atom_ok] in Hx, Hy.
      cbn [key_leb enc_key map enc_atom kcs_ltb kc_ltb kc_eqb]. fold (enc_key a). fold (enc_key b).
      rewrite atom_eqb_str, atom_leb_str, (agree sy sx Hy Hx), (enc_str_eqb sy sx Hy Hx).
      destruct (str_eqb sx sy) eqn:E.
      * apply str_eqb_true in E. subst. rewrite str_ltb_irrefl, str_eqb_refl. cbn. exact IH.
      * assert (E' : str_eqb sy sx = false).
        { destruct (str_eqb sy sx) eqn:E2; [|reflexivity]. apply str_eqb_true in E2. subst. rewrite str_eqb_refl in E. discriminate. }
        rewrite E'. cbn [andb]. rewrite !orb_false_r.
        destruct (str_trichotomy sx sy) as [L|[Q|L]].
        -- rewrite L, (str_ltb_asym _ _ L). reflexivity.
        -- subst. rewrite str_eqb_refl in E. discriminate.
        -- rewrite L, (str_ltb_asym _ _ L). reflexivity.
Qed.

Section Offers.
Variable es : list (key * row).
Hypothesis es_ok : forall e, In e es -> key_ok (fst e) = true.
Hypothesis es_shape : forall a b, In a es -> In b es -> shape_eqb (enc_key (fst a)) (enc_key (fst b)) = true.

Let tleb (x y : nat * (key * row)) : bool := key_leb (fst (snd x)) (fst (snd y)).
Let tlt (x y : nat * (key * row)) : Prop := entry_ltb (enc_tagged x) (enc_tagged y) = true.

Lemma placed_tagged x y : In (snd x) es -> In (snd y) es -> fst x < fst y -> placed tleb tlt x y.
Proof.
  intros Ix Iy Hlt. unfold placed, tleb, tlt.
  rewrite (key_leb_enc _ _ (es_ok _ Ix) (es_ok _ Iy) (es_shape _ _ Ix Iy)).
  unfold entry_ltb, enc_tagged, e_key, e_idx. cbn [fst snd].
  destruct (kcs_ltb (enc_key (fst (snd y))) (enc_key (fst (snd x)))) eqn:L; cbn [negb].
  - reflexivity.
  - destruct (kcs_trichotomy _ _ (es_shape _ _ Ix Iy)) as [L1|[E|L1]].
    + rewrite L1. reflexivity.
    + rewrite E, kcs_eqb_refl. apply Nat.ltb_lt in Hlt. rewrite Hlt. apply orb_true_r.
    + rewrite L1 in L. discriminate.
Qed.

Lemma tag_from_placed : forall l n, (forall e, In e l -> In e es) -> ForallOrdPairs (placed tleb tlt) (tag_from n l).
Proof.
  induction l as [|e t IH]; intros n Hin; [constructor|]. cbn [tag_from]. constructor.
  - apply Forall_forall. intros x Hx. destruct (tag_from_in t (S n) x Hx) as [H1 H2].
    apply placed_tagged; [apply Hin; left; reflexivity | apply Hin; right; exact H1 | cbn; lia].
  - apply IH. intros e' He'. apply Hin. right. exact He'.
Qed.

(* the reference sort, run on the numbered entries *)
Definition ref_sorted : list (nat * (key * row)) := isort tleb (tag_from 0 es).

Lemma ref_sorted_rows : map snd ref_sorted = stable_sort es.
Proof.
  unfold ref_sorted, tleb. rewrite stable_sort_isort.
  rewrite (isort_map (@snd nat (key * row)) (fun a b => key_leb (fst a) (fst b))). rewrite untag. reflexivity.
Qed.

Lemma ref_sorted_perm : Permutation (js_entries es) (map enc_tagged ref_sorted).
Proof.
  unfold js_entries, arrivals. rewrite <- enc_tag_from. apply Permutation_map. symmetry. apply isort_perm.
Qed.

Lemma ref_sorted_strict : StronglySorted (fun a b => entry_ltb a b = true) (map enc_tagged ref_sorted).
Proof.
  apply strongly_sorted_map. apply (isort_sorted tleb tlt).
  - intros x y z. apply entry_ltb_trans.
  - apply tag_from_placed. intros e He. exact He.
Qed.

Lemma js_entries_homogeneous : homogeneous (js_entries es).
Proof.
  intros a b Ia Ib. unfold js_entries, arrivals in Ia, Ib.
  destruct (number_from_in _ _ _ Ia) as [Ha _]. destruct (number_from_in _ _ _ Ib) as [Hb _].
  apply in_map_iff in Ha. apply in_map_iff in Hb. destruct Ha as [ea [Ea Ha]], Hb as [eb [Eb Hb]].
  injection Ea as Ea _. injection Eb as Eb _. rewrite <- Ea, <- Eb. apply es_shape; assumption.
Qed.

Lemma js_entries_idx : NoDup (map e_idx (js_entries es)).
Proof. unfold js_entries, arrivals. rewrite number_from_idx. apply seq_NoDup. Qed.

(* (c) whatever permutation without inversion Array.prototype.sort returns, it is the reference sort of the numbered entries *)
Lemma js_sort_is_ref_sorted (out : list (entry row)) :
  Permutation (js_entries es) out ->
  StronglySorted (fun a b => stable_compare b a <> Some (-1)%Z) out ->
  out = map enc_tagged ref_sorted.
Proof.
  intros HP HS.
  destruct (stable_compare_total_order row (js_entries es) js_entries_homogeneous js_entries_idx) as [LT _].
  assert (In1 : forall a, In a out -> In a (js_entries es)) by (intro a; apply Permutation_in; symmetry; exact HP).
  apply (ecma_sorted_perm_unique (entry row) entry_ltb (js_entries es)).
  - intros a b Ia Ib. destruct (entry_trichotomy a b (js_entries_homogeneous a b Ia Ib)) as [L|[[_ E]|L]].
    + right. left. exact L.
    + left. apply (idx_identifies _ js_entries_idx a b Ia Ib E).
    + right. right. exact L.
  - exact HP.
  - exact ref_sorted_perm.
  - apply (strongly_sorted_impl_in (fun a b => stable_compare b a <> Some (-1)%Z)); [|exact HS].
    intros a b Ia Ib H. destruct (entry_ltb b a) eqn:E; [|reflexivity]. exfalso. apply H.
    apply (LT b a (In1 b Ib) (In1 a Ia)). exact E.
  - apply (strongly_sorted_noinv entry_ltb).
    + intros a _. apply entry_ltb_irrefl.
    + intros a b c _ _ _. apply entry_ltb_trans.
    + exact ref_sorted_strict.
Qed.

Theorem js_sort_is_stable_sort_on (out : list (entry row)) :
  Permutation (js_entries es) out ->
  StronglySorted (fun a b => stable_compare b a <> Some (-1)%Z) out ->
  js_output false out = map snd (stable_sort es)
  /\ js_output false out = ordered false es
  /\ js_output true out = ordered true es
  /\ js_output true out = rev (ordered false es).
Proof.
  intros HP HS. rewrite (js_sort_is_ref_sorted out HP HS).
  assert (E : map e_rec (map enc_tagged ref_sorted) = map snd (stable_sort es)).
  { rewrite <- ref_sorted_rows. rewrite !map_map. reflexivity. }
  unfold js_output, ordered. cbn zeta. rewrite map_rev, E. repeat split; reflexivity.
Qed.
End Offers.
End Reference.

(* the two classes of strings of Utf16_Proofs.v: no code point in U+E000..U+FFFF, or none above U+FFFF *)
Theorem js_sort_is_stable_sort : forall (es : list (key * row)) (out : list (entry row)),
  (forall e, In e es -> key_ok (forallb low_or_astral) (fst e) = true) ->
  (forall a b, In a es -> In b es -> shape_eqb (enc_key (fst a)) (enc_key (fst b)) = true) ->
  Permutation (js_entries es) out ->
  StronglySorted (fun a b => stable_compare b a <> Some (-1)%Z) out ->
  js_output false out = map snd (stable_sort es)
  /\ js_output false out = ordered false es
  /\ js_output true out = ordered true es
  /\ js_output true out = rev (ordered false es).
Proof. intros es out H1 H2. exact (js_sort_is_stable_sort_on (forallb low_or_astral) utf16_order_agree es H1 H2 out). Qed.

Theorem js_sort_is_stable_sort_bmp : forall (es : list (key * row)) (out : list (entry row)),
  (forall e, In e es -> key_ok (forallb bmp) (fst e) = true) ->
  (forall a b, In a es -> In b es -> shape_eqb (enc_key (fst a)) (enc_key (fst b)) = true) ->
  Permutation (js_entries es) out ->
  StronglySorted (fun a b => stable_compare b a <> Some (-1)%Z) out ->
  js_output false out = map snd (stable_sort es)
  /\ js_output false out = ordered false es
  /\ js_output true out = ordered true es
  /\ js_output true out = rev (ordered false es).
Proof. intros es out H1 H2. exact (js_sort_is_stable_sort_on (forallb bmp) utf16_order_agree_bmp es H1 H2 out). Qed.

(* ------------------------------------------------------------------ 5. group keys: compare_aggregation_keys *)
Lemma aggregation_compare_lex : forall a b, shape_eqb a b = true ->
  compare_aggregation_keys (Some a) (Some b) = sort_value (lex3 (kcs_ltb a b) (kcs_ltb b a)).
Proof. intros a b H. unfold compare_aggregation_keys. rewrite (compare_loop_lex a b H). reflexivity. Qed.

Section Groups.
Variable okstr : str -> bool.
Hypothesis agree : forall s t, okstr s = true -> okstr t = true ->
  units_ltb (utf16_encode s) (utf16_encode t) = str_ltb s t.
Variable ks : list key.
Hypothesis ks_ok : forall k, In k ks -> key_ok okstr k = true.
Hypothesis ks_shape : forall a b, In a ks -> In b ks -> shape_eqb (enc_key a) (enc_key b) = true.

Let klt (a b : key) : Prop := kcs_ltb (enc_key a) (enc_key b) = true.

Lemma keys_placed : forall l, (forall k, In k l -> In k ks) -> NoDup (map enc_key l) -> ForallOrdPairs (placed key_leb klt) l.
Proof.
  induction l as [|e t IH]; intros Hin ND; [constructor|]. cbn [map] in ND. inversion ND as [|? ? Ne NDt]; subst. constructor.
  - apply Forall_forall. intros x Hx. unfold placed, klt.
    assert (Ie : In e ks) by (apply Hin; left; reflexivity). assert (Ix : In x ks) by (apply Hin; right; exact Hx).
    rewrite (key_leb_enc okstr agree e x (ks_ok e Ie) (ks_ok x Ix) (ks_shape e x Ie Ix)).
    destruct (kcs_ltb (enc_key x) (enc_key e)) eqn:L; cbn [negb]; [reflexivity|].
    destruct (kcs_trichotomy _ _ (ks_shape e x Ie Ix)) as [L1|[E|L1]].
    + exact L1.
    + exfalso. apply Ne. rewrite E. apply in_map. exact Hx.
    + rewrite L1 in L. discriminate.
  - apply IH; [|exact NDt]. intros k Hk. apply Hin. right. exact Hk.
Qed.

(* (d) the distinct key tuples come out in ascending tuple order, which is the order of Agg.sort_keys *)
Theorem js_group_order_on (out : list (list kc)) :
  NoDup (map enc_key ks) ->
  Permutation (map enc_key ks) out ->
  StronglySorted (fun a b => compare_aggregation_keys (Some b) (Some a) <> (-1)%Z) out ->
  out = map enc_key (sort_keys ks) /\ StronglySorted (fun a b => kcs_ltb a b = true) out.
Proof.
  intros ND HP HS.
  assert (SH : forall a b, In a (map enc_key ks) -> In b (map enc_key ks) -> shape_eqb a b = true).
  { intros a b Ia Ib. apply in_map_iff in Ia. apply in_map_iff in Ib. destruct Ia as [ka [<- Ia]], Ib as [kb [<- Ib]].
    apply ks_shape; assumption. }
  assert (In1 : forall a, In a out -> In a (map enc_key ks)) by (intro a; apply Permutation_in; symmetry; exact HP).
  assert (SS : StronglySorted (fun a b => kcs_ltb a b = true) (map enc_key (sort_keys ks))).
  { apply strongly_sorted_map. rewrite sort_keys_isort. apply (isort_sorted key_leb klt).
    - intros x y z. apply kcs_ltb_trans.
    - apply keys_placed; [intros k Hk; exact Hk | exact ND]. }
  assert (E : out = map enc_key (sort_keys ks)).
  { apply (ecma_sorted_perm_unique (list kc) kcs_ltb (map enc_key ks)).
    - intros a b Ia Ib. destruct (kcs_trichotomy a b (SH a b Ia Ib)) as [L|[Q|L]]; auto.
    - exact HP.
    - apply Permutation_map. symmetry. rewrite sort_keys_isort. apply isort_perm.
    - apply (strongly_sorted_impl_in (fun a b => compare_aggregation_keys (Some b) (Some a) <> (-1)%Z)); [|exact HS].
      intros a b Ia Ib H. destruct (kcs_ltb b a) eqn:L; [|reflexivity]. exfalso. apply H.
      rewrite (aggregation_compare_lex b a (SH b a (In1 b Ib) (In1 a Ia))), L. reflexivity.
    - apply (strongly_sorted_noinv kcs_ltb).
      + intros a _. apply kcs_ltb_irrefl.
      + intros a b c _ _ _. apply kcs_ltb_trans.
      + exact SS. }
  split; [exact E|]. rewrite E. exact SS.
Qed.
End Groups.

Theorem js_group_order : forall (ks : list key) (out : list (list kc)),
  (forall k, In k ks -> key_ok (forallb low_or_astral) k = true) ->
  (forall a b, In a ks -> In b ks -> shape_eqb (enc_key a) (enc_key b) = true) ->
  NoDup (map enc_key ks) ->
  Permutation (map enc_key ks) out ->
  StronglySorted (fun a b => compare_aggregation_keys (Some b) (Some a) <> (-1)%Z) out ->
  out = map enc_key (sort_keys ks) /\ StronglySorted (fun a b => kcs_ltb a b = true) out.
Proof. intros ks out H1 H2. exact (js_group_order_on (forallb low_or_astral) utf16_order_agree ks H1 H2 out). Qed.

Theorem js_group_order_bmp : forall (ks : list key) (out : list (list kc)),
  (forall k, In k ks -> key_ok (forallb bmp) k = true) ->
  (forall a b, In a ks -> In b ks -> shape_eqb (enc_key a) (enc_key b) = true) ->
  NoDup (map enc_key ks) ->
  Permutation (map enc_key ks) out ->
  StronglySorted (fun a b => compare_aggregation_keys (Some b) (Some a) <> (-1)%Z) out ->
  out = map enc_key (sort_keys ks) /\ StronglySorted (fun a b => kcs_ltb a b = true) out.
Proof. intros ks out H1 H2. exact (js_group_order_on (forallb bmp) utf16_order_agree_bmp ks H1 H2 out). Qed.

(* ------------------------------------------------------------------ 6. mixed keys: not an order
   "10" < "9" as strings, "9" < 10 as numbers, but "10" < 10 is false: stable_compare is not transitive, and it is not even a
   consistent comparator (a against c and c against a both answer 1), so ECMA-262 promises nothing about the result of the sort.
   This is why the language-neutral fragment keeps every sort key position of one kind. *)
Definition mixed_a : entry unit := ([KStr [49; 48]%N], 0, tt).
Definition mixed_b : entry unit := ([KStr [57]%N], 1, tt).
Definition mixed_c : entry unit := ([KNum 10], 2, tt).

Theorem stable_compare_mixed_refuted :
  exists a b c : entry unit,
    NoDup (map e_idx [a; b; c])
    /\ stable_compare a b = Some (-1)%Z /\ stable_compare b c = Some (-1)%Z
    /\ stable_compare a c = Some 1%Z /\ stable_compare c a = Some 1%Z.
Proof.
  exists mixed_a, mixed_b, mixed_c. split.
  - repeat constructor; cbn; intuition discriminate.
  - vm_compute. repeat split; reflexivity.
Qed.
