(* Isolation.v — two queries as step machines over disjoint state plus a read-only global (debug_mode): the scheduler
   picks which machine takes the next step (a get_record / write / finish call); histories of queries run one after
   another thread the global through. *)
From RBQL Require Import Base.

Section Iso.
Variables G S1 S2 : Type.
(* a step reads the global and its own state, and writes its own state only *)
Variable step1 : G -> S1 -> S1.
Variable step2 : G -> S2 -> S2.

Fixpoint run_interleaved (sched : list bool) (g : G) (s : S1 * S2) : S1 * S2 :=
  match sched with
  | [] => s
  | true :: t => run_interleaved t g (step1 g (fst s), snd s)
  | false :: t => run_interleaved t g (fst s, step2 g (snd s))
  end.

Fixpoint iter {T} (n : nat) (f : T -> T) (x : T) : T := match n with O => x | S k => iter k f (f x) end.

Definition count_true (l : list bool) : nat := length (filter (fun b => b) l).
Definition count_false (l : list bool) : nat := length (filter negb l).
End Iso.

Section Hist.
Variables G Q R : Type.
(* running one query: result, and the global afterwards (RBQL never writes it: the model returns it unchanged) *)
Variable run_query : G -> Q -> R.

Fixpoint run_seq (g : G) (qs : list Q) : list R :=
  match qs with [] => [] | q :: t => run_query g q :: run_seq g t end.
End Hist.
