(* CsvWriter.v — executable model of the writer logic of
     rbql-py/rbql/rbql_csv.py  CSVWriter (set_header, write, normalize_fields, quote_fields[_rfc],
                               ensure_single_field, monocolumn_join, join_by_delim,
                               check_separator_in_fields_after_join, get_warnings flags)
     rbql-js/rbql_csv.js       CSVWriter (normalize_fields, simple_join, quoted_join[_rfc], mono_join)
   Streams, encodings, colours and the broken-pipe flag are not modelled here: the model yields the
   list of output lines (the text written is each line followed by the line separator).
   NO proofs in this file. *)
From RBQL Require Import Base Csv.

(* an output cell as the engine hands it to the writer *)
Inductive cell :=
| CStr (s : str)
| CNone                      (* Python None / JS null, undefined *)
| CInt (z : Z)               (* any other scalar is rendered by str() / String(); integers are modelled *)
| CList (l : list cell).     (* list / Array: joined by sub_array_delim after recursive normalisation *)

(* decimal rendering of integers: Python str(int), JS String(number) for safe integers *)
Fixpoint digits_fuel (fuel : nat) (n : N) (acc : str) : str :=
  match fuel with
  | O => acc
  | S f =>
      let d := (48 + N.modulo n 10)%N in
      let q := N.div n 10 in
      if N.eqb q 0 then d :: acc else digits_fuel f q (d :: acc)
  end.
Definition str_of_N (n : N) : str := digits_fuel (S (N.size_nat n)) n [].
Definition str_of_Z (z : Z) : str :=
  match z with
  | Z0 => [48%N]
  | Zpos p => str_of_N (Npos p)
  | Zneg p => 45%N :: str_of_N (Npos p)
  end.

Definition sub_array_delim (dlm : str) : str := if str_eqb dlm [124%N] then [59%N] else [124%N].   (* '|' unless delim is '|', then ';' *)

(* normalize_fields on one cell: (text, a None was replaced) *)
Fixpoint norm_cell (sub : str) (c : cell) : str * bool :=
  match c with
  | CStr s => (s, false)
  | CNone => ([], true)
  | CInt z => (str_of_Z z, false)
  | CList l => let rs := map (norm_cell sub) l in (join sub (map fst rs), existsb snd rs)
  end.

Definition normalize_fields (dlm : str) (row : list cell) : list str * bool :=
  let rs := map (norm_cell (sub_array_delim dlm)) row in (map fst rs, existsb snd rs).

(* the lossy-output detectors for the simple and whitespace policies *)
Definition delim_flag_py (dlm : str) (fs : list str) (line : str) : bool :=
  negb (Nat.eqb (count dlm line + 1) (length fs)).              (* check_separator_in_fields_after_join *)
Definition delim_flag_js (dlm : str) (fs : list str) : bool :=
  contains dlm (concat fs).                                     (* fields.join('').indexOf(delim) != -1 *)
Definition delim_flag (fl : lang) (pol : policy) (dlm : str) (fs : list str) (line : str) : bool :=
  match pol with
  | Simple | Whitespace => match fl with LPy => delim_flag_py dlm fs line | LJs => delim_flag_js dlm fs end
  | _ => false
  end.

Inductive werr :=
| ErrHeaderLen               (* Inconsistent number of columns in output header and the current record *)
| ErrMono                    (* Unable to use "Monocolumn" output format: some records have more than one field *)
| ErrOther.                  (* monocolumn: no field at all (IndexError / write(undefined)) *)

Record wstate := { w_lines : list str; w_none : bool; w_delim : bool }.   (* lines in reverse order *)

(* (until /repo 'fix: rbql-js monocolumn output ...' (D23) the JS mono_join returned fields[0] as it was, and a top-level number
   reached stream.write() unconverted: modelled then as ErrOther; now both ports write str / String of the single field) *)

(* one call of write(fields) *)
Definition write_row (fl : lang) (pol : policy) (dlm : str) (header_len : option nat) (st : wstate) (row : list cell)
  : wstate * option werr :=
  let bad_len := match header_len with Some n => negb (Nat.eqb (length row) n) | None => false end in
  if bad_len then (st, Some ErrHeaderLen)
  else
    let '(fs, nn) := normalize_fields dlm row in
    let st1 := {| w_lines := w_lines st; w_none := w_none st || nn; w_delim := w_delim st |} in
    match pol with
    | Monocolumn =>
        match fs with
        | [] => (st1, Some ErrOther)
        | [f] => ({| w_lines := f :: w_lines st1; w_none := w_none st1; w_delim := w_delim st1 |}, None)
        | _ :: _ :: _ => (st1, Some ErrMono)
        end
    | _ =>
        let line := join_line_fl fl pol dlm fs in
        ({| w_lines := line :: w_lines st1; w_none := w_none st1;
            w_delim := w_delim st1 || delim_flag fl pol dlm fs line |}, None)
    end.

Fixpoint write_rows (fl : lang) (pol : policy) (dlm : str) (header_len : option nat) (st : wstate) (idx : nat)
                    (rows : list (list cell)) : wstate * option (nat * werr) :=
  match rows with
  | [] => (st, None)
  | r :: rest =>
      match write_row fl pol dlm header_len st r with
      | (st', Some e) => (st', Some (idx, e))
      | (st', None) => write_rows fl pol dlm header_len st' (S idx) rest
      end
  end.

(* set_header(header) followed by write(row) for every row, stopping at the first exception.
   Result: (lines written, first error with the 0-based index of the failing write call - the header,
   when given, is call 0 -, none_in_output, delim_in_simple_output) *)
Definition write_table (fl : lang) (pol : policy) (dlm : str) (header : option (list cell)) (rows : list (list cell))
  : list str * option (nat * werr) * bool * bool :=
  let st0 := {| w_lines := []; w_none := false; w_delim := false |} in
  let '(st, e) :=
    match header with
    | None => write_rows fl pol dlm None st0 O rows
    | Some h => write_rows fl pol dlm (Some (length h)) st0 O (h :: rows)
    end in
  (rev (w_lines st), e, w_none st, w_delim st).
