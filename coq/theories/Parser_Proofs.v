(* Parser_Proofs.v — lemmas about Parser.v (C08): cleanup_query invariance *)
From RBQL Require Import Base Parser.
From Coq Require Import Relations.
Local Open Scope N_scope.

(* ------------------------------------------------------------------ lstrip / rstrip *)
Section Strip.
  Variable f : ch -> bool.

  Lemma lstrip_all : forall w, forallb f w = true -> lstrip_by f w = [].
  Proof.
    induction w as [|c w IH]; intro H; [reflexivity|]. cbn [forallb] in H. apply andb_true_iff in H.
    destruct H as [H1 H2]. cbn [lstrip_by]. rewrite H1. apply IH. exact H2.
  Qed.

  Lemma lstrip_app_all : forall w s, forallb f w = true -> lstrip_by f (w ++ s) = lstrip_by f s.
  Proof.
    induction w as [|c w IH]; intros s H; [reflexivity|]. cbn [forallb] in H. apply andb_true_iff in H.
    destruct H as [H1 H2]. cbn [app lstrip_by]. rewrite H1. apply IH. exact H2.
  Qed.

  Lemma lstrip_app_some : forall s z, lstrip_by f s <> [] -> lstrip_by f (s ++ z) = lstrip_by f s ++ z.
  Proof.
    induction s as [|c s IH]; intros z H; [exfalso; apply H; reflexivity|].
    cbn [app lstrip_by] in *. destruct (f c); [apply IH; exact H | reflexivity].
  Qed.

  Lemma lstrip_head : forall c s, f c = false -> lstrip_by f (c :: s) = c :: s.
  Proof. intros c s H. cbn [lstrip_by]. rewrite H. reflexivity. Qed.

  Lemma lstrip_all_or_some : forall s, forallb f s = true \/ lstrip_by f s <> [].
  Proof.
    induction s as [|c s IH]; [left; reflexivity|]. cbn [forallb lstrip_by]. destruct (f c) eqn:E.
    - destruct IH as [IH|IH]; [left; exact IH | right; exact IH].
    - right. discriminate.
  Qed.

  Lemma forallb_rev : forall w, forallb f (rev w) = forallb f w.
  Proof.
    induction w as [|c w IH]; [reflexivity|]. cbn [rev forallb]. rewrite forallb_app. cbn [forallb].
    rewrite IH. rewrite andb_true_r. apply andb_comm.
  Qed.

  Lemma rstrip_app_all : forall s w, forallb f w = true -> rstrip_by f (s ++ w) = rstrip_by f s.
  Proof.
    intros s w H. unfold rstrip_by. rewrite rev_app_distr. rewrite lstrip_app_all; [reflexivity|].
    rewrite forallb_rev. exact H.
  Qed.

  Lemma rstrip_all : forall w, forallb f w = true -> rstrip_by f w = [].
  Proof. intros w H. unfold rstrip_by. rewrite lstrip_all; [reflexivity|]. rewrite forallb_rev. exact H. Qed.

  Lemma rstrip_app_some : forall z s, rstrip_by f s <> [] -> rstrip_by f (z ++ s) = z ++ rstrip_by f s.
  Proof.
    intros z s H. unfold rstrip_by in *. rewrite rev_app_distr. rewrite lstrip_app_some.
    - rewrite rev_app_distr. rewrite rev_involutive. reflexivity.
    - intro E. apply H. rewrite E. reflexivity.
  Qed.

  Lemma rstrip_last : forall x a, f a = false -> rstrip_by f (x ++ [a]) = x ++ [a].
  Proof.
    intros x a H. unfold rstrip_by. rewrite rev_app_distr. cbn [rev app]. rewrite lstrip_head by exact H.
    cbn [rev]. rewrite rev_involutive. reflexivity.
  Qed.

  (* a text ending in a non-strippable character keeps that end under lstrip *)
  Lemma lstrip_keeps_last : forall pre a, f a = false -> exists x, lstrip_by f (pre ++ [a]) = x ++ [a].
  Proof.
    intros pre a H. destruct (lstrip_all_or_some pre) as [Hp|Hp].
    - exists []. rewrite lstrip_app_all by exact Hp. apply lstrip_head. exact H.
    - exists (lstrip_by f pre). apply lstrip_app_some. exact Hp.
  Qed.

  Lemma rstrip_keeps_head : forall b post, f b = false -> exists y, rstrip_by f (b :: post) = b :: y.
  Proof.
    intros b post H. unfold rstrip_by. cbn [rev].
    destruct (lstrip_keeps_last (rev post) b H) as [x Hx]. rewrite Hx. rewrite rev_app_distr. cbn [rev app].
    exists (rev x). reflexivity.
  Qed.

  Lemma strip_pad : forall w1 l w2, forallb f w1 = true -> forallb f w2 = true ->
    strip_by f (w1 ++ l ++ w2) = strip_by f l.
  Proof.
    intros w1 l w2 H1 H2. unfold strip_by. rewrite lstrip_app_all by exact H1.
    destruct (lstrip_all_or_some l) as [Hl|Hl].
    - rewrite (lstrip_all l Hl). rewrite lstrip_all; [reflexivity|]. rewrite forallb_app, Hl, H2. reflexivity.
    - rewrite lstrip_app_some by exact Hl. apply rstrip_app_all. exact H2.
  Qed.

  (* "word SP word": the strip of the joined line is the two stripped halves around the space *)
  Lemma strip_break : forall pre a b post ind, f a = false -> f b = false -> f SP = true -> forallb f ind = true ->
    strip_by f ((pre ++ [a]) ++ SP :: b :: post) =
    strip_by f (pre ++ [a]) ++ [SP] ++ strip_by f (ind ++ b :: post).
  Proof.
    intros pre a b post ind Ha Hb Hs Hi. unfold strip_by.
    destruct (lstrip_keeps_last pre a Ha) as [x Hx].
    assert (Hne : lstrip_by f (pre ++ [a]) <> []) by (rewrite Hx; destruct x; discriminate).
    rewrite lstrip_app_some by exact Hne. rewrite Hx. rewrite (rstrip_last x a Ha).
    rewrite lstrip_app_all by exact Hi. rewrite lstrip_head by exact Hb.
    destruct (rstrip_keeps_head b post Hb) as [y Hy].
    change (SP :: b :: post) with ([SP] ++ b :: post). rewrite app_assoc.
    rewrite rstrip_app_some; [rewrite <- app_assoc; reflexivity|]. rewrite Hy. discriminate.
  Qed.
End Strip.

(* ------------------------------------------------------------------ split_ch / join *)
Definition nolf (s : str) : Prop := ~ In LF s.

Lemma split_ch_nonempty : forall d s, exists l r, split_ch d s = l :: r.
Proof.
  intros d s. induction s as [|c s [l [r IH]]]; [exists [], []; reflexivity|].
  cbn [split_ch]. destruct (N.eqb c d); [exists [], (split_ch d s); reflexivity|].
  rewrite IH. exists (c :: l), r. reflexivity.
Qed.

Lemma split_ch_app_sep : forall d a b, split_ch d (a ++ d :: b) = split_ch d a ++ split_ch d b.
Proof.
  intros d a b. induction a as [|c a IH].
  - cbn [app split_ch]. rewrite N.eqb_refl. reflexivity.
  - cbn [app split_ch]. destruct (N.eqb c d); [rewrite IH; reflexivity|].
    rewrite IH. destruct (split_ch_nonempty d a) as [l [r E]]. rewrite E. reflexivity.
Qed.

Lemma split_ch_none : forall d s, ~ In d s -> split_ch d s = [s].
Proof.
  intros d s. induction s as [|c s IH]; intro H; [reflexivity|].
  cbn [split_ch]. destruct (N.eqb_spec c d) as [->|Hc]; [exfalso; apply H; left; reflexivity|].
  rewrite IH; [reflexivity|]. intro Hi. apply H. right. exact Hi.
Qed.

Lemma split_join_lines : forall ls, ls <> [] -> Forall nolf ls -> split_ch LF (join [LF] ls) = ls.
Proof.
  induction ls as [|l ls IH]; intros Hne Hf; [exfalso; apply Hne; reflexivity|].
  inversion Hf as [|? ? Hl Hls]; subst. destruct ls as [|l2 r].
  - cbn [join]. apply split_ch_none. exact Hl.
  - change (join [LF] (l :: l2 :: r)) with (l ++ [LF] ++ join [LF] (l2 :: r)). cbn [app].
    rewrite split_ch_app_sep. rewrite (split_ch_none LF l Hl). rewrite IH; [reflexivity|discriminate|exact Hls].
Qed.

Lemma join_cons2 : forall d (f g : str) r, join d (f :: g :: r) = f ++ d ++ join d (g :: r).
Proof. reflexivity. Qed.

(* joining [x; y] inside a list equals joining the single piece x ++ d ++ y *)
Lemma join_merge : forall d A x y B, join d (A ++ x :: y :: B) = join d (A ++ (x ++ d ++ y) :: B).
Proof.
  intros d A x y B. induction A as [|a A IH].
  - cbn [app]. rewrite join_cons2. destruct B as [|b B].
    + reflexivity.
    + rewrite !join_cons2. rewrite <- !app_assoc. reflexivity.
  - cbn [app]. destruct A as [|a2 A].
    + cbn [app] in *. rewrite (join_cons2 d a x), (join_cons2 d a (x ++ d ++ y)). rewrite IH. reflexivity.
    + cbn [app] in *. rewrite !(join_cons2 d a a2). rewrite IH. reflexivity.
Qed.

Lemma join_last_app : forall d A y z, join d (A ++ [y ++ z]) = join d (A ++ [y]) ++ z.
Proof.
  intros d A y z. induction A as [|a A IH]; [reflexivity|].
  cbn [app]. destruct A as [|a2 A].
  - cbn [app join]. rewrite <- !app_assoc. reflexivity.
  - cbn [app] in *. rewrite !(join_cons2 d a a2). rewrite <- !app_assoc. do 2 f_equal. exact IH.
Qed.

(* ------------------------------------------------------------------ cleanup_query on line lists *)
Definition cleanup_lines (fl : lang) (ls : list str) : str := rstrip_semi (join [SP] (clean_lines fl ls)).

Lemma clean_lines_app : forall fl a b, clean_lines fl (a ++ b) = clean_lines fl a ++ clean_lines fl b.
Proof. intros. unfold clean_lines. rewrite map_app, filter_app. reflexivity. Qed.

Lemma clean_lines_cons : forall fl l r, clean_lines fl (l :: r) = clean_lines fl [l] ++ clean_lines fl r.
Proof. intros. change (l :: r) with ([l] ++ r). apply clean_lines_app. Qed.

Lemma clean_lines_skipped : forall fl l, strip_comments fl l = [] -> clean_lines fl [l] = [].
Proof. intros fl l H. unfold clean_lines. cbn [map filter]. rewrite H. reflexivity. Qed.

Lemma clean_lines_kept : forall fl l c r, strip_comments fl l = c :: r -> clean_lines fl [l] = [c :: r].
Proof. intros fl l c r H. unfold clean_lines. cbn [map filter]. rewrite H. reflexivity. Qed.

Theorem cleanup_of_lines : forall fl ls, Forall nolf ls -> cleanup_query fl (join [LF] ls) = cleanup_lines fl ls.
Proof.
  intros fl ls H. unfold cleanup_query, cleanup_lines. destruct ls as [|l r].
  - cbn [join split_ch]. unfold clean_lines. cbn [map filter]. unfold strip_comments, strip_ws, strip_by, rstrip_by.
    cbn [lstrip_by rev]. destruct fl; reflexivity.
  - rewrite split_join_lines; [reflexivity|discriminate|exact H].
Qed.

(* the comment character: first character of the comment prefix *)
Definition comment_ch (fl : lang) : ch := match fl with LPy => HASH | LJs => 47 end.

Lemma ws_SP : forall fl, ws fl SP = true.
Proof. destruct fl; reflexivity. Qed.
Lemma ws_SEMI : forall fl, ws fl SEMI = false.
Proof. destruct fl; reflexivity. Qed.

Lemma not_comment_head : forall fl c r, c <> comment_ch fl -> starts_with (comment_prefix fl) (c :: r) = false.
Proof.
  intros fl c r H. destruct fl; cbn [comment_prefix starts_with comment_ch] in *.
  - rewrite (proj2 (N.eqb_neq HASH c)); [reflexivity|]. intro E. apply H. symmetry. exact E.
  - rewrite (proj2 (N.eqb_neq 47 c)); [reflexivity|]. intro E. apply H. symmetry. exact E.
Qed.

(* a line is a "code line starting with c": its first non-blank character is c, which is not the comment character *)
Definition code_head (fl : lang) (l : str) : Prop :=
  exists c r, lstrip_by (ws fl) l = c :: r /\ c <> comment_ch fl.

Lemma strip_comments_break : forall fl pre a b post ind,
  ws fl a = false -> ws fl b = false -> forallb (ws fl) ind = true ->
  code_head fl (pre ++ [a]) -> b <> comment_ch fl ->
  exists x y, strip_comments fl ((pre ++ [a]) ++ SP :: b :: post) = x ++ [SP] ++ y /\
              strip_comments fl (pre ++ [a]) = x /\ strip_comments fl (ind ++ b :: post) = y /\
              x <> [] /\ y <> [].
Proof.
  intros fl pre a b post ind Ha Hb Hi [c [r [Hc Hcc]]] Hbc.
  unfold strip_comments, strip_ws.
  rewrite (strip_break (ws fl) pre a b post ind Ha Hb (ws_SP fl) Hi).
  (* left half *)
  assert (E1 : strip_by (ws fl) (pre ++ [a]) = lstrip_by (ws fl) (pre ++ [a])).
  { unfold strip_by. destruct (lstrip_keeps_last (ws fl) pre a Ha) as [x Hx]. rewrite Hx. apply rstrip_last. exact Ha. }
  (* right half *)
  assert (E2 : exists y, strip_by (ws fl) (ind ++ b :: post) = b :: y).
  { unfold strip_by. rewrite lstrip_app_all by exact Hi. rewrite lstrip_head by exact Hb. apply rstrip_keeps_head. exact Hb. }
  destruct E2 as [y E2]. rewrite E1, E2, Hc.
  exists (c :: r), (b :: y). cbn [app].
  rewrite (not_comment_head fl c _ Hcc). rewrite (not_comment_head fl c r Hcc). rewrite (not_comment_head fl b y Hbc).
  repeat split; discriminate.
Qed.

Lemma starts_with_app : forall p x y, starts_with p x = true -> starts_with p (x ++ y) = true.
Proof.
  induction p as [|c p IH]; intros x y H; [reflexivity|]. destruct x as [|d x]; [discriminate|].
  cbn [app starts_with] in *. apply andb_true_iff in H. destruct H as [H1 H2]. rewrite H1. cbn [andb]. apply IH. exact H2.
Qed.

Lemma comment_prefix_semis : forall fl x n, x <> [] ->
  starts_with (comment_prefix fl) (x ++ repeat SEMI n) = starts_with (comment_prefix fl) x.
Proof.
  intros fl x n Hx. destruct x as [|a x]; [exfalso; apply Hx; reflexivity|]. destruct fl; cbn [comment_prefix].
  - reflexivity.
  - destruct x as [|b x].
    + cbn [app starts_with]. destruct n; cbn [repeat]; rewrite ?andb_false_r; reflexivity.
    + reflexivity.
Qed.

Lemma repeat_snoc : forall {T} (x : T) n, repeat x (S n) = repeat x n ++ [x].
Proof. intros T x n. induction n as [|n IH]; [reflexivity|]. cbn [repeat app] in *. rewrite <- IH. reflexivity. Qed.

Lemma strip_semis : forall fl pre a n, ws fl a = false ->
  strip_ws fl ((pre ++ [a]) ++ repeat SEMI n) = strip_ws fl (pre ++ [a]) ++ repeat SEMI n.
Proof.
  intros fl pre a n Ha. unfold strip_ws, strip_by.
  destruct (lstrip_keeps_last (ws fl) pre a Ha) as [x Hx].
  assert (Hne : lstrip_by (ws fl) (pre ++ [a]) <> []) by (rewrite Hx; destruct x; discriminate).
  rewrite lstrip_app_some by exact Hne. rewrite Hx. rewrite (rstrip_last (ws fl) x a Ha).
  destruct n as [|n]; [cbn [repeat]; rewrite app_nil_r; apply rstrip_last; exact Ha|].
  rewrite repeat_snoc. rewrite app_assoc. apply rstrip_last. apply ws_SEMI.
Qed.

Lemma forallb_repeat_semi : forall n, forallb (N.eqb SEMI) (repeat SEMI n) = true.
Proof. induction n as [|n IH]; [reflexivity|]. cbn [repeat forallb]. rewrite IH. reflexivity. Qed.

(* ------------------------------------------------------------------ the spelling steps on physical lines *)
Inductive spell_step (fl : lang) : list str -> list str -> Prop :=
| ss_insert : forall l1 l2 l,                      (* a comment line or a blank line, anywhere *)
    strip_comments fl l = [] -> spell_step fl (l1 ++ l2) (l1 ++ l :: l2)
| ss_pad : forall l1 l2 l w1 w2,                   (* leading / trailing blanks on a line *)
    forallb (ws fl) w1 = true -> forallb (ws fl) w2 = true ->
    spell_step fl (l1 ++ l :: l2) (l1 ++ (w1 ++ l ++ w2) :: l2)
| ss_break : forall l1 l2 pre a b post ind,        (* one space between two words -> line break + indentation *)
    ws fl a = false -> ws fl b = false -> forallb (ws fl) ind = true ->
    code_head fl (pre ++ [a]) -> b <> comment_ch fl ->
    spell_step fl (l1 ++ ((pre ++ [a]) ++ SP :: b :: post) :: l2) (l1 ++ (pre ++ [a]) :: (ind ++ b :: post) :: l2)
| ss_semis : forall l1 pre a n,                    (* semicolons appended at the end *)
    ws fl a = false -> spell_step fl (l1 ++ [pre ++ [a]]) (l1 ++ [(pre ++ [a]) ++ repeat SEMI n]).

Lemma spell_step_sound : forall fl ls ls', spell_step fl ls ls' -> cleanup_lines fl ls = cleanup_lines fl ls'.
Proof.
  intros fl ls ls' H. unfold cleanup_lines. destruct H as [l1 l2 l Hl | l1 l2 l w1 w2 H1 H2 | l1 l2 pre a b post ind Ha Hb Hi Hc Hbc | l1 pre a n Ha].
  - rewrite !clean_lines_app. rewrite (clean_lines_cons fl l l2). rewrite (clean_lines_skipped fl l Hl). reflexivity.
  - rewrite !clean_lines_app. rewrite !(clean_lines_cons fl _ l2).
    unfold clean_lines at 2 5. cbn [map filter]. unfold strip_comments, strip_ws.
    rewrite (strip_pad (ws fl) w1 l w2 H1 H2). reflexivity.
  - destruct (strip_comments_break fl pre a b post ind Ha Hb Hi Hc Hbc) as [x [y [E0 [E1 [E2 [Hx Hy]]]]]].
    rewrite !clean_lines_app.
    rewrite (clean_lines_cons fl _ ((ind ++ b :: post) :: l2)).
    rewrite !(clean_lines_cons fl _ l2).
    destruct x as [|xc xr]; [exfalso; apply Hx; reflexivity|]. destruct y as [|yc yr]; [exfalso; apply Hy; reflexivity|].
    rewrite (clean_lines_kept fl _ xc xr E1). rewrite (clean_lines_kept fl _ yc yr E2).
    assert (E0' : strip_comments fl ((pre ++ [a]) ++ SP :: b :: post) = xc :: (xr ++ [SP] ++ yc :: yr)) by (rewrite E0; reflexivity).
    rewrite (clean_lines_kept fl _ _ _ E0').
    cbn [app]. rewrite (join_merge [SP] (clean_lines fl l1) (xc :: xr) (yc :: yr) (clean_lines fl l2)). reflexivity.
  - rewrite !clean_lines_app. unfold clean_lines at 2 4. cbn [map filter]. unfold strip_comments.
    rewrite (strip_semis fl pre a n Ha).
    assert (Hne : strip_ws fl (pre ++ [a]) <> []).
    { unfold strip_ws, strip_by. destruct (lstrip_keeps_last (ws fl) pre a Ha) as [x Hx]. rewrite Hx.
      rewrite (rstrip_last (ws fl) x a Ha). destruct x; discriminate. }
    rewrite (comment_prefix_semis fl _ n Hne).
    destruct (starts_with (comment_prefix fl) (strip_ws fl (pre ++ [a]))); [reflexivity|].
    destruct (strip_ws fl (pre ++ [a])) as [|sc sr] eqn:Es; [exfalso; apply Hne; reflexivity|].
    cbn [nonempty app].
    change ((sc :: sr ++ repeat SEMI n)) with ((sc :: sr) ++ repeat SEMI n).
    rewrite join_last_app. unfold rstrip_semi. rewrite rstrip_app_all; [reflexivity|]. apply forallb_repeat_semi.
Qed.

Definition spell_equiv (fl : lang) : list str -> list str -> Prop := clos_refl_sym_trans _ (spell_step fl).

Theorem spell_equiv_sound : forall fl ls ls', spell_equiv fl ls ls' -> cleanup_lines fl ls = cleanup_lines fl ls'.
Proof.
  intros fl ls ls' H. induction H as [x y H | x | x y H IH | x y z H1 IH1 H2 IH2].
  - apply spell_step_sound. exact H.
  - reflexivity.
  - symmetry. exact IH.
  - rewrite IH1. exact IH2.
Qed.

Theorem cleanup_invariant : forall fl ls ls', Forall nolf ls -> Forall nolf ls' -> spell_equiv fl ls ls' ->
  cleanup_query fl (join [LF] ls) = cleanup_query fl (join [LF] ls').
Proof.
  intros fl ls ls' H1 H2 H. rewrite (cleanup_of_lines fl ls H1), (cleanup_of_lines fl ls' H2).
  apply spell_equiv_sound. exact H.
Qed.

(* ------------------------------------------------------------------ non-vacuity of the spelling relation *)
From Coq Require String.
Import String.StringSyntax.

Definition ex_lines0 : list str := [$"select a1 where a2"].
Definition ex_lines3 : list str := [$"select a1"; $"# where 'x"; $"  where a2;;"].

Example spell_equiv_example :
  Forall nolf ex_lines0 /\ Forall nolf ex_lines3 /\ spell_equiv LPy ex_lines0 ex_lines3 /\
  cleanup_query LPy (join [LF] ex_lines3) = $"select a1 where a2" /\ join [LF] ex_lines0 <> join [LF] ex_lines3.
Proof.
  split; [|split; [|split; [|split]]].
  - repeat constructor; intro H; cbn in H; repeat destruct H as [H|H]; try discriminate; contradiction.
  - repeat constructor; intro H; cbn in H; repeat destruct H as [H|H]; try discriminate; contradiction.
  - apply rst_trans with (y := [$"select a1"; $"  where a2"]).
    { apply rst_step.
      apply (ss_break LPy [] [] ($"select a") 49 119 ($"here a2") ($"  ")); try reflexivity.
      - exists 115, ($"elect a1"). split; [reflexivity|discriminate].
      - discriminate. }
    apply rst_trans with (y := [$"select a1"; $"# where 'x"; $"  where a2"]).
    { apply rst_step. apply (ss_insert LPy [$"select a1"] [$"  where a2"] ($"# where 'x")). reflexivity. }
    apply rst_step.
    apply (ss_semis LPy [$"select a1"; $"# where 'x"] ($"  where a") 50 2). reflexivity.
  - vm_compute. reflexivity.
  - vm_compute. discriminate.
Qed.

(* ================================================================== string literals are opaque (Python) *)
(* A literal body is a sequence of items: a plain character (not the quote character, not a backslash, not LF)
   or a backslash followed by any character but LF; inside a triple-quoted literal the escaped character is not
   the quote character either. *)
Inductive item (q0 : ch) (tri : bool) : str -> Prop :=
| it_plain : forall c, c <> q0 -> c <> BSL -> c <> LF -> item q0 tri [c]
| it_esc : forall c, c <> LF -> (tri = true -> c <> q0) -> item q0 tri [BSL; c].
Inductive body (q0 : ch) (tri : bool) : str -> Prop :=
| b_nil : body q0 tri []
| b_cons : forall i r, item q0 tri i -> body q0 tri r -> body q0 tri (i ++ r).

Inductive seg := Code (s : str) | Lit (q0 : ch) (tri : bool) (b : str).
Definition quote_of (q0 : ch) (tri : bool) : str := if tri then [q0; q0; q0] else [q0].
Definition lit_text (q0 : ch) (tri : bool) (b : str) : str := quote_of q0 tri ++ b ++ quote_of q0 tri.
Definition render_seg (s : seg) : str := match s with Code c => c | Lit q0 tri b => lit_text q0 tri b end.
Definition render (segs : list seg) : str := concat (map render_seg segs).
Fixpoint placeholders_raw (k : nat) (segs : list seg) : str :=
  match segs with
  | [] => []
  | Code c :: r => c ++ placeholders_raw k r
  | Lit _ _ _ :: r => placeholder k ++ placeholders_raw (S k) r
  end.
Fixpoint placeholders (k : nat) (segs : list seg) : str :=
  match segs with
  | [] => []
  | Code c :: r => map tabfix c ++ placeholders k r
  | Lit _ _ _ :: r => placeholder k ++ placeholders (S k) r
  end.
Definition literals (segs : list seg) : list str :=
  flat_map (fun s => match s with Code _ => [] | Lit q0 tri b => [lit_text q0 tri b] end) segs.

Definition quote_free (c : str) : Prop := ~ In QT c /\ ~ In APOS c.
Inductive wf_segs : list seg -> Prop :=
| wf_nil : wf_segs []
| wf_code : forall c r, quote_free c -> wf_segs r -> wf_segs (Code c :: r)
| wf_lit : forall q0 tri b r, q0 = QT \/ q0 = APOS -> body q0 tri b -> wf_segs r ->
    (* an empty "" / '' is not directly followed by a third quote of its kind (that would open a triple quote) *)
    (tri = false -> b = [] -> starts_with [q0] (render r) = false) ->
    wf_segs (Lit q0 tri b :: r).

Lemma starts_with_refl_app : forall p r, starts_with p (p ++ r) = true.
Proof. induction p as [|c p IH]; intro r; [reflexivity|]. cbn [app starts_with]. rewrite N.eqb_refl. apply IH. Qed.

Lemma quote_of_head : forall q0 tri, exists t, quote_of q0 tri = q0 :: t.
Proof. intros q0 [|]; [exists [q0; q0] | exists []]; reflexivity. Qed.

Lemma starts_with_quote_other : forall q0 tri c X, c <> q0 -> starts_with (quote_of q0 tri) (c :: X) = false.
Proof.
  intros q0 tri c X H. destruct (quote_of_head q0 tri) as [t ->]. cbn [starts_with].
  rewrite (proj2 (N.eqb_neq q0 c)); [reflexivity|]. intro E. apply H. symmetry. exact E.
Qed.

Lemma scan_body : forall q0 tri b, q0 = QT \/ q0 = APOS -> body q0 tri b ->
  forall rest pos fb,
  scan_py (quote_of q0 tri) (b ++ quote_of q0 tri ++ rest) pos false 0 fb =
  Some (pos + length b + length (quote_of q0 tri))%nat.
Proof.
  intros q0 tri b Hq Hb. induction Hb as [|i r Hi Hr IH]; intros rest pos fb.
  - cbn [app length]. destruct (quote_of_head q0 tri) as [t Et].
    assert (E : scan_py (quote_of q0 tri) (quote_of q0 tri ++ rest) pos false 0 fb = Some (pos + length (quote_of q0 tri))%nat).
    { pose proof (starts_with_refl_app (quote_of q0 tri) rest) as S. revert S. rewrite Et. cbn [app]. intro S.
      cbn [scan_py]. rewrite S. reflexivity. }
    rewrite E. f_equal. lia.
  - assert (Hb34 : BSL <> q0) by (destruct Hq as [->| ->]; discriminate).
    destruct Hi as [c H1 H2 H3 | c H3 Ht].
    + cbn [app]. cbn [scan_py]. rewrite (starts_with_quote_other q0 tri c _ H1).
      rewrite (proj2 (N.eqb_neq c LF) H3), (proj2 (N.eqb_neq c BSL) H2).
      rewrite IH. f_equal. cbn [length]. lia.
    + cbn [app]. cbn [scan_py]. rewrite (starts_with_quote_other q0 tri BSL _ Hb34).
      change (N.eqb BSL LF) with false. change (N.eqb BSL BSL) with true. cbn [negb].
      destruct (starts_with (quote_of q0 tri) (c :: r ++ quote_of q0 tri ++ rest)) eqn:E.
      * destruct tri.
        { destruct (N.eqb_spec c q0) as [->|Hc]; [exfalso; apply (Ht eq_refl); reflexivity|].
          rewrite (starts_with_quote_other q0 true c _ Hc) in E. discriminate. }
        { cbn [quote_of length Nat.sub] in *. rewrite IH. f_equal. cbn [length]. lia. }
      * rewrite (proj2 (N.eqb_neq c LF) H3).
        assert (Eo : (if N.eqb c BSL then false else false) = false) by (destruct (N.eqb c BSL); reflexivity).
        rewrite Eo. rewrite IH. f_equal. cbn [length]. lia.
Qed.

Lemma body_head : forall q0 tri b, q0 = QT \/ q0 = APOS -> body q0 tri b -> b = [] \/ exists c t, b = c :: t /\ c <> q0.
Proof.
  intros q0 tri b Hq Hb. destruct Hb as [|i r Hi Hr]; [left; reflexivity|]. right.
  destruct Hi as [c H1 H2 H3 | c H3 Ht].
  - exists c, r. split; [reflexivity | exact H1].
  - exists BSL, (c :: r). split; [reflexivity|]. destruct Hq as [->| ->]; discriminate.
Qed.

Lemma lit_match_literal : forall q0 tri b rest, q0 = QT \/ q0 = APOS -> body q0 tri b ->
  (tri = false -> b = [] -> starts_with [q0] rest = false) ->
  lit_match_py (lit_text q0 tri b ++ rest) = Some (length (lit_text q0 tri b)).
Proof.
  intros q0 tri b rest Hq Hb Hn. unfold lit_text.
  assert (Eq : N.eqb q0 QT || N.eqb q0 APOS = true) by (destruct Hq as [->| ->]; reflexivity).
  destruct tri.
  - cbn [quote_of app]. unfold lit_match_py. rewrite Eq. cbn [starts_with]. rewrite !N.eqb_refl. cbn [andb skipn].
    pose proof (scan_body q0 true b Hq Hb rest 3%nat None) as S. cbn [quote_of] in S.
    rewrite <- app_assoc. cbn [app] in *. rewrite S. f_equal. cbn [length]. rewrite app_length. cbn [length]. lia.
  - cbn [quote_of app]. unfold lit_match_py. rewrite Eq.
    assert (Et : starts_with [q0; q0; q0] (q0 :: (b ++ [q0]) ++ rest) = false).
    { destruct (body_head q0 false b Hq Hb) as [->|[c [t [-> Hc]]]].
      - cbn [app starts_with]. rewrite !N.eqb_refl. cbn [andb]. specialize (Hn eq_refl eq_refl).
        destruct rest as [|x rest]; [reflexivity|]. cbn [starts_with] in Hn. rewrite andb_true_r in Hn. rewrite Hn. reflexivity.
      - cbn [app starts_with]. rewrite N.eqb_refl. rewrite (proj2 (N.eqb_neq q0 c)); [reflexivity|].
        intro E. apply Hc. symmetry. exact E. }
    rewrite Et.
    pose proof (scan_body q0 false b Hq Hb rest 1%nat None) as S. cbn [quote_of] in S.
    rewrite <- app_assoc. cbn [app] in *. rewrite S. f_equal. cbn [length]. rewrite app_length. cbn [length]. lia.
Qed.

Lemma sep_code : forall c rest k, quote_free c ->
  sep lit_match_py (c ++ rest) 0 k = (c ++ fst (sep lit_match_py rest 0 k), snd (sep lit_match_py rest 0 k)).
Proof.
  induction c as [|x c IH]; intros rest k [H1 H2].
  - cbn [app]. destruct (sep lit_match_py rest 0 k); reflexivity.
  - cbn [app sep].
    assert (Ex : lit_match_py (x :: c ++ rest) = None).
    { unfold lit_match_py.
      rewrite (proj2 (N.eqb_neq x QT)) by (intro E; apply H1; left; rewrite E; reflexivity).
      rewrite (proj2 (N.eqb_neq x APOS)) by (intro E; apply H2; left; rewrite E; reflexivity). reflexivity. }
    rewrite Ex. rewrite IH.
    + destruct (sep lit_match_py rest 0 k); reflexivity.
    + split; intro Hi; [apply H1 | apply H2]; right; exact Hi.
Qed.

Lemma sep_skip : forall m x rest k, sep m (x ++ rest) (length x) k = sep m rest 0 k.
Proof. intros m x. induction x as [|c x IH]; intros rest k; [reflexivity|]. cbn [app length sep]. apply IH. Qed.

Lemma sep_literal : forall L rest k, lit_match_py (L ++ rest) = Some (length L) -> (2 <= length L)%nat ->
  sep lit_match_py (L ++ rest) 0 k =
  (placeholder k ++ fst (sep lit_match_py rest 0 (S k)), L :: snd (sep lit_match_py rest 0 (S k))).
Proof.
  intros L rest k Hm Hl. destruct L as [|c L]; [cbn in Hl; lia|].
  cbn [app] in *. cbn [sep]. rewrite Hm. cbn [length Nat.sub]. rewrite Nat.sub_0_r.
  rewrite sep_skip. destruct (sep lit_match_py rest 0 (S k)) as [f ls]. cbn [fst snd].
  f_equal. f_equal. change (c :: L ++ rest) with ((c :: L) ++ rest).
  change (S (length L)) with (length (c :: L)). rewrite firstn_app, firstn_all, Nat.sub_diag. cbn [firstn]. apply app_nil_r.
Qed.

Lemma lit_text_len : forall q0 tri b, (2 <= length (lit_text q0 tri b))%nat.
Proof. intros q0 [|] b; unfold lit_text; cbn [quote_of]; rewrite !app_length; cbn [length]; lia. Qed.

Lemma render_cons : forall s r, render (s :: r) = render_seg s ++ render r.
Proof. reflexivity. Qed.

Theorem sep_segments : forall segs k, wf_segs segs ->
  sep lit_match_py (render segs) 0 k = (placeholders_raw k segs, literals segs).
Proof.
  intros segs k H. revert k. induction H as [|c r Hc Hr IH | q0 tri b r Hq Hb Hr IH Hn]; intro k.
  - reflexivity.
  - rewrite render_cons. cbn [render_seg]. rewrite (sep_code c (render r) k Hc). rewrite IH. reflexivity.
  - rewrite render_cons. cbn [render_seg].
    rewrite (sep_literal (lit_text q0 tri b) (render r) k (lit_match_literal q0 tri b (render r) Hq Hb Hn) (lit_text_len q0 tri b)).
    rewrite IH. reflexivity.
Qed.

(* the placeholder contains no TAB, so the final TAB -> space replacement only touches code *)
Lemma dec_fuel_ge48 : forall fuel n acc, Forall (fun c => 48 <= c) acc -> Forall (fun c => 48 <= c) (dec_fuel fuel n acc).
Proof.
  induction fuel as [|f IH]; intros n acc H; [exact H|]. cbn [dec_fuel].
  assert (H' : Forall (fun c => 48 <= c) ((n mod 10 + 48) :: acc)) by (constructor; [apply N.le_add_l | exact H]).
  destruct (N.ltb n 10); [exact H' | apply IH; exact H'].
Qed.

Lemma tabfix_id : forall s, Forall (fun c => c <> TAB) s -> map tabfix s = s.
Proof.
  induction s as [|c s IH]; intro H; [reflexivity|]. inversion H as [|? ? Hc Hs]; subst. cbn [map]. rewrite IH by exact Hs.
  unfold tabfix. rewrite (proj2 (N.eqb_neq c TAB) Hc). reflexivity.
Qed.

Lemma placeholder_no_tab : forall k, map tabfix (placeholder k) = placeholder k.
Proof.
  intro k. apply tabfix_id. unfold placeholder. apply Forall_app. split; [|apply Forall_app; split].
  - unfold PH_PREFIX. repeat constructor; discriminate.
  - unfold dec_of_nat, dec_of_N. eapply Forall_impl; [|apply dec_fuel_ge48; constructor].
    intros c Hc E. subst. unfold TAB in Hc. lia.
  - unfold PH_SUFFIX. repeat constructor; discriminate.
Qed.

Lemma placeholders_tabfix : forall segs k, map tabfix (placeholders_raw k segs) = placeholders k segs.
Proof.
  induction segs as [|[c|q0 tri b] r IH]; intro k; [reflexivity| |].
  - cbn [placeholders_raw placeholders]. rewrite map_app, IH. reflexivity.
  - cbn [placeholders_raw placeholders]. rewrite map_app, IH, placeholder_no_tab. reflexivity.
Qed.

Theorem literals_opaque : forall segs, wf_segs segs ->
  separate_string_literals LPy (render segs) = (placeholders 0 segs, literals segs).
Proof.
  intros segs H. unfold separate_string_literals. cbn [lit_match]. rewrite (sep_segments segs 0 H).
  rewrite placeholders_tabfix. reflexivity.
Qed.

(* ------------------------------------------------------------------ non-vacuity of literals_opaque *)
Ltac solve_body :=
  repeat first
    [ apply b_nil
    | match goal with
      | |- body ?q ?t (92 :: ?c :: ?r) =>
          apply (b_cons q t [92; c] r); [apply it_esc; [discriminate | let H := fresh in intro H; first [discriminate H | discriminate]] |]
      end
    | match goal with
      | |- body ?q ?t (?c :: ?r) => apply (b_cons q t [c] r); [apply it_plain; discriminate |]
      end ].

Definition ex_segs : list seg :=
  [Code ($"select "); Lit QT false ($"where \""" ++ [TAB] ++ $"#,; a1 ' = *"); Code ($", a1" ++ [TAB]);
   Lit APOS true ($"from a \x order by"); Code ($" + "); Lit QT false []; Code ($" x")].

Example literals_opaque_example :
  wf_segs ex_segs /\
  separate_string_literals LPy (render ex_segs) =
    ($"select ___RBQL_STRING_LITERAL0___, a1 ___RBQL_STRING_LITERAL1___ + ___RBQL_STRING_LITERAL2___ x",
     [$"""where \""" ++ [TAB] ++ $"#,; a1 ' = *"""; $"'''from a \x order by'''"; $""""""]).
Proof.
  split.
  - unfold ex_segs. apply wf_code; [split; intro H; cbn in H; repeat destruct H as [H|H]; try discriminate; contradiction|].
    apply wf_lit; [left; reflexivity | cbv; solve_body | | intros _ H; discriminate H].
    apply wf_code; [split; intro H; cbn in H; repeat destruct H as [H|H]; try discriminate; contradiction|].
    apply wf_lit; [right; reflexivity | cbv; solve_body | | intro H; discriminate H].
    apply wf_code; [split; intro H; cbn in H; repeat destruct H as [H|H]; try discriminate; contradiction|].
    apply wf_lit; [left; reflexivity | apply b_nil | | intros _ _; reflexivity].
    apply wf_code; [split; intro H; cbn in H; repeat destruct H as [H|H]; try discriminate; contradiction|].
    apply wf_nil.
  - vm_compute. reflexivity.
Qed.

(* combine_string_literals is a sequential replace: a literal that contains the text of a later placeholder is
   itself substituted into (observation O1) - the hypothesis "no literal contains ___RBQL_STRING_LITERAL" of
   C08_combine_verbatim cannot be dropped *)
Definition ex_segs_o1 : list seg := [Lit QT false ($"___RBQL_STRING_LITERAL1___"); Code ($" + "); Lit APOS false ($"x")].
Example combine_needs_hypothesis :
  wf_segs ex_segs_o1 /\
  combine_string_literals (placeholders 0 ex_segs_o1) (literals ex_segs_o1) = $"""'x'"" + 'x'" /\
  render ex_segs_o1 = $"""___RBQL_STRING_LITERAL1___"" + 'x'".
Proof.
  split; [|split; vm_compute; reflexivity].
  unfold ex_segs_o1. apply wf_lit; [left; reflexivity | cbv; solve_body | | intros _ H; discriminate H].
  apply wf_code; [split; intro H; cbn in H; repeat destruct H as [H|H]; try discriminate; contradiction|].
  apply wf_lit; [right; reflexivity | cbv; solve_body | apply wf_nil | intros _ H; discriminate H].
Qed.

(* ------------------------------------------------------------------ the cleaned query contains no LF *)
(* (this is what licenses modelling '$' as "end of text" and the dot of the WITH regex as "any character" for the text that
   reaches separate_actions through the pipeline) *)
Lemma lstrip_incl : forall f s c, In c (lstrip_by f s) -> In c s.
Proof.
  intros f s. induction s as [|x s IH]; intros c H; [exact H|]. cbn [lstrip_by] in H.
  destruct (f x); [right; apply IH; exact H | exact H].
Qed.
Lemma rstrip_incl : forall f s c, In c (rstrip_by f s) -> In c s.
Proof. intros f s c H. unfold rstrip_by in H. apply in_rev in H. apply lstrip_incl in H. apply in_rev. exact H. Qed.
Lemma strip_incl : forall f s c, In c (strip_by f s) -> In c s.
Proof. intros f s c H. unfold strip_by in H. apply rstrip_incl in H. apply lstrip_incl in H. exact H. Qed.

Lemma split_ch_pieces : forall d s l, In l (split_ch d s) -> ~ In d l.
Proof.
  intros d s. induction s as [|c s IH]; intros l H.
  - cbn [split_ch] in H. destruct H as [<-|[]]. intros [].
  - cbn [split_ch] in H. destruct (N.eqb_spec c d) as [->|Hc].
    + destruct H as [<-|H]; [intros [] | apply IH; exact H].
    + destruct (split_ch d s) as [|l0 r] eqn:E.
      * destruct H as [<-|[]]. intros [Z|[]]. contradiction.
      * destruct H as [<-|H].
        { intros [Z|Z]; [contradiction | exact (IH l0 (or_introl eq_refl) Z)]. }
        { apply IH. right. exact H. }
Qed.

Lemma join_sp_nolf : forall ls, Forall nolf ls -> nolf (join [SP] ls).
Proof.
  induction ls as [|l ls IH]; intro H; [intros []|]. inversion H as [|? ? Hl Hls]; subst. destruct ls as [|l2 r]; [exact Hl|].
  change (join [SP] (l :: l2 :: r)) with (l ++ [SP] ++ join [SP] (l2 :: r)). intro Z.
  apply in_app_or in Z. destruct Z as [Z|Z]; [exact (Hl Z)|]. apply in_app_or in Z. destruct Z as [[Z|[]]|Z]; [discriminate Z | exact (IH Hls Z)].
Qed.

Theorem cleanup_no_lf : forall fl q, nolf (cleanup_query fl q).
Proof.
  intros fl q. unfold cleanup_query, rstrip_semi. intro Z. apply rstrip_incl in Z. revert Z. apply join_sp_nolf.
  unfold clean_lines. apply Forall_forall. intros l Hl. apply filter_In in Hl. destruct Hl as [Hl _].
  apply in_map_iff in Hl. destruct Hl as [x [<- Hx]]. unfold strip_comments.
  destruct (starts_with (comment_prefix fl) (strip_ws fl x)); [intros []|].
  intro Z. apply strip_incl in Z. exact (split_ch_pieces LF q x Hx Z).
Qed.


(* ================================================================== string literals are opaque (JS, after fix a149087) *)
(* JS literal body: plain characters (not the quote character, not a backslash; LF allowed) and backslash pairs
   (backslash + ANY character); quote characters: single quote, double quote, backtick *)
Inductive jitem (q0 : ch) : str -> Prop :=
| jit_plain : forall c, c <> q0 -> c <> BSL -> jitem q0 [c]
| jit_esc : forall c, jitem q0 [BSL; c].
Inductive jbody (q0 : ch) : str -> Prop :=
| jb_nil : jbody q0 []
| jb_cons : forall i r, jitem q0 i -> jbody q0 r -> jbody q0 (i ++ r).
Inductive jseg := JCode (s : str) | JLit (q0 : ch) (b : str).
Definition jlit_text (q0 : ch) (b : str) : str := q0 :: b ++ [q0].
Definition jrender_seg (s : jseg) : str := match s with JCode c => c | JLit q0 b => jlit_text q0 b end.
Definition jrender (segs : list jseg) : str := concat (map jrender_seg segs).
Fixpoint jplaceholders_raw (k : nat) (segs : list jseg) : str :=
  match segs with
  | [] => []
  | JCode c :: r => c ++ jplaceholders_raw k r
  | JLit _ _ :: r => placeholder k ++ jplaceholders_raw (S k) r
  end.
Fixpoint jplaceholders (k : nat) (segs : list jseg) : str :=
  match segs with
  | [] => []
  | JCode c :: r => map tabfix c ++ jplaceholders k r
  | JLit _ _ :: r => placeholder k ++ jplaceholders (S k) r
  end.
Definition jliterals (segs : list jseg) : list str :=
  flat_map (fun s => match s with JCode _ => [] | JLit q0 b => [jlit_text q0 b] end) segs.
Definition jquote (q0 : ch) : Prop := q0 = APOS \/ q0 = QT \/ q0 = BQ.
Definition jquote_free (c : str) : Prop := ~ In APOS c /\ ~ In QT c /\ ~ In BQ c.
Inductive jwf_segs : list jseg -> Prop :=
| jwf_nil : jwf_segs []
| jwf_code : forall c r, jquote_free c -> jwf_segs r -> jwf_segs (JCode c :: r)
| jwf_lit : forall q0 b r, jquote q0 -> jbody q0 b -> jwf_segs r -> jwf_segs (JLit q0 b :: r).

Lemma jscan_body : forall q0 b, jquote q0 -> jbody q0 b -> forall rest pos,
  scan_js q0 (b ++ q0 :: rest) pos = Some (pos + length b + 1)%nat.
Proof.
  intros q0 b Hq Hb. induction Hb as [|i r Hi Hr IH]; intros rest pos.
  - cbn [app scan_js length]. rewrite N.eqb_refl. f_equal. lia.
  - assert (Hb : BSL <> q0) by (destruct Hq as [->|[->| ->]]; discriminate).
    destruct Hi as [c H1 H2 | c].
    + cbn [app scan_js]. rewrite (proj2 (N.eqb_neq c q0) H1), (proj2 (N.eqb_neq c BSL) H2). rewrite IH. f_equal. cbn [length]. lia.
    + cbn [app scan_js]. rewrite (proj2 (N.eqb_neq BSL q0) Hb). change (N.eqb BSL BSL) with true. cbn iota. rewrite IH. f_equal. cbn [length]. lia.
Qed.

Lemma jlit_match_literal : forall q0 b rest, jquote q0 -> jbody q0 b ->
  lit_match_js (jlit_text q0 b ++ rest) = Some (length (jlit_text q0 b)).
Proof.
  intros q0 b rest Hq Hb. unfold jlit_text. cbn [app]. unfold lit_match_js.
  assert (E : N.eqb q0 APOS || N.eqb q0 QT || N.eqb q0 BQ = true) by (destruct Hq as [->|[->| ->]]; reflexivity).
  rewrite E. rewrite <- app_assoc. cbn [app]. rewrite (jscan_body q0 b Hq Hb rest 1). f_equal. cbn [length]. rewrite app_length. cbn [length]. lia.
Qed.

Lemma jsep_code : forall c rest k, jquote_free c ->
  sep lit_match_js (c ++ rest) 0 k = (c ++ fst (sep lit_match_js rest 0 k), snd (sep lit_match_js rest 0 k)).
Proof.
  induction c as [|x c IH]; intros rest k [H1 [H2 H3]].
  - cbn [app]. destruct (sep lit_match_js rest 0 k); reflexivity.
  - cbn [app sep].
    assert (Ex : lit_match_js (x :: c ++ rest) = None).
    { unfold lit_match_js.
      rewrite (proj2 (N.eqb_neq x APOS)) by (intro E; apply H1; left; rewrite E; reflexivity).
      rewrite (proj2 (N.eqb_neq x QT)) by (intro E; apply H2; left; rewrite E; reflexivity).
      rewrite (proj2 (N.eqb_neq x BQ)) by (intro E; apply H3; left; rewrite E; reflexivity). reflexivity. }
    rewrite Ex. rewrite IH.
    + destruct (sep lit_match_js rest 0 k); reflexivity.
    + repeat split; intro Hi; [apply H1 | apply H2 | apply H3]; right; exact Hi.
Qed.

Lemma jsep_literal : forall L rest k, lit_match_js (L ++ rest) = Some (length L) -> (2 <= length L)%nat ->
  sep lit_match_js (L ++ rest) 0 k =
  (placeholder k ++ fst (sep lit_match_js rest 0 (S k)), L :: snd (sep lit_match_js rest 0 (S k))).
Proof.
  intros L rest k Hm Hl. destruct L as [|c L]; [cbn in Hl; lia|].
  cbn [app] in *. cbn [sep]. rewrite Hm. cbn [length Nat.sub]. rewrite Nat.sub_0_r.
  rewrite sep_skip. destruct (sep lit_match_js rest 0 (S k)) as [f ls]. cbn [fst snd].
  f_equal. f_equal. change (c :: L ++ rest) with ((c :: L) ++ rest).
  change (S (length L)) with (length (c :: L)). rewrite firstn_app, firstn_all, Nat.sub_diag. cbn [firstn]. apply app_nil_r.
Qed.

Theorem jsep_segments : forall segs k, jwf_segs segs ->
  sep lit_match_js (jrender segs) 0 k = (jplaceholders_raw k segs, jliterals segs).
Proof.
  intros segs k H. revert k. induction H as [|c r Hc Hr IH | q0 b r Hq Hb Hr IH]; intro k.
  - reflexivity.
  - unfold jrender. cbn [map concat jrender_seg]. fold (jrender r). rewrite (jsep_code c (jrender r) k Hc). rewrite IH. reflexivity.
  - unfold jrender. cbn [map concat jrender_seg]. fold (jrender r).
    rewrite (jsep_literal (jlit_text q0 b) (jrender r) k (jlit_match_literal q0 b (jrender r) Hq Hb)) by (unfold jlit_text; cbn [length]; rewrite app_length; cbn [length]; lia).
    rewrite IH. reflexivity.
Qed.

Lemma jplaceholders_tabfix : forall segs k, map tabfix (jplaceholders_raw k segs) = jplaceholders k segs.
Proof.
  induction segs as [|[c|q0 b] r IH]; intro k; [reflexivity| |].
  - cbn [jplaceholders_raw jplaceholders]. rewrite map_app, IH. reflexivity.
  - cbn [jplaceholders_raw jplaceholders]. rewrite map_app, IH, placeholder_no_tab. reflexivity.
Qed.

Theorem literals_opaque_js : forall segs, jwf_segs segs ->
  separate_string_literals LJs (jrender segs) = (jplaceholders 0 segs, jliterals segs).
Proof.
  intros segs H. unfold separate_string_literals. cbn [lit_match]. rewrite (jsep_segments segs 0 H).
  rewrite jplaceholders_tabfix. reflexivity.
Qed.

(* the finding D13 as a lemma about the OLD scanner's input: with the fixed scanner the query text
   select DQ a \ \ DQ where a1 != DQ z DQ  separates into the two literals (the old regex merged them) *)
Definition ex_jsegs : list jseg := [JCode ($"select "); JLit QT [97; BSL; BSL]; JCode ($" where a1 != "); JLit QT [122]].
Example literals_opaque_js_example :
  jwf_segs ex_jsegs /\
  separate_string_literals LJs (jrender ex_jsegs) =
    ($"select ___RBQL_STRING_LITERAL0___ where a1 != ___RBQL_STRING_LITERAL1___", [[QT; 97; BSL; BSL; QT]; [QT; 122; QT]]).
Proof.
  split; [|vm_compute; reflexivity]. unfold ex_jsegs.
  apply jwf_code; [repeat split; intro H; cbn in H; repeat destruct H as [H|H]; try discriminate; contradiction|].
  apply jwf_lit; [right; left; reflexivity | | ].
  { apply (jb_cons QT [97] [BSL; BSL]); [apply jit_plain; discriminate|]. apply (jb_cons QT [BSL; BSL] []); [apply jit_esc | apply jb_nil]. }
  apply jwf_code; [repeat split; intro H; cbn in H; repeat destruct H as [H|H]; try discriminate; contradiction|].
  apply jwf_lit; [right; left; reflexivity | | apply jwf_nil].
  apply (jb_cons QT [122] []); [apply jit_plain; discriminate | apply jb_nil].
Qed.
