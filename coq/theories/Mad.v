(* Mad.v — the dispatch of lower-case min / max / sum between the Python builtin and the RBQL aggregate
   (rbql_engine.py mad_max / mad_min / mad_sum inside compile_and_run). The decision depends only on the number of
   positional arguments, the presence of keyword arguments and the kind of a single argument. *)
From RBQL Require Import Base.

Inductive argkind :=
| KindStr | KindNum          (* str; int / float / bool *)
| KindList (nonempty : bool) (* a list (an iterable the builtin accepts) *)
| KindNoneOrOther.           (* None or any other non-iterable object: the builtin raises TypeError *)

Inductive decision :=
| Aggregate                  (* MAX(x) / MIN(x) / SUM(x): an aggregation token *)
| Builtin                    (* the builtin's value *)
| BuiltinRaises.             (* the builtin's own exception propagates (e.g. ValueError on an empty sequence) *)

(* mad_max / mad_min *)
Definition mad_minmax (args : list argkind) (kwargs : bool) : decision :=
  match args, kwargs with
  | [KindStr], false | [KindNum], false => Aggregate            (* checked before the builtin is tried *)
  | [KindList true], _ => Builtin
  | [KindList false], false => BuiltinRaises                    (* ValueError is not caught *)
  | [KindNoneOrOther], false => Aggregate                       (* builtin raises TypeError, single argument: aggregate *)
  | [_], true => Builtin                                        (* keyword arguments (key=, default=): builtin semantics *)
  | _ :: _ :: _, _ => Builtin
  | [], _ => BuiltinRaises
  end.

(* mad_sum: the builtin is tried first *)
Definition mad_sum (args : list argkind) : decision :=
  match args with
  | [KindList _] => Builtin                  (* sum([]) == 0 *)
  | [KindStr] => Aggregate                   (* sum("12") raises TypeError (0 + "1"): aggregate; NB sum("") == 0 is the builtin *)
  | [KindNum] | [KindNoneOrOther] => Aggregate
  | [_; _] => Builtin                        (* sum(iterable, start) *)
  | _ => BuiltinRaises
  end.
