(* Agg_Proofs.v — aggregation: the interleaved per-key dictionary updates equal, for each key, the fold of the
   aggregate's step over that group's values in input order (streaming = batch); the folds are the mathematical
   COUNT / SUM / MIN / MAX / AVG / VARIANCE / MEDIAN / ARRAY_AGG / ANY_VALUE; one row per distinct key (C03) *)
From RBQL Require Import Base Value Value_Proofs Expr Join_Proofs Agg.
From Coq Require Import QArith Permutation Sorted.

(* ---------- the per-key dictionary ---------- *)
Lemma stats_set_get k s : forall l k',
  stats_get (stats_set l k s) k' = if key_eqb k' k then Some s else stats_get l k'.
Proof.
  induction l as [|[k0 s0] l IH]; intros k'.
  - cbn. destruct (key_eqb k' k); reflexivity.
  - cbn [stats_set]. destruct (key_eqb k k0) eqn:E.
    + cbn [stats_get]. destruct (key_eqb k' k0) eqn:E2.
      * assert (H : key_eqb k' k = true) by (rewrite key_eqb_sym in E; eapply key_eqb_trans; eassumption).
        rewrite H. reflexivity.
      * assert (H : key_eqb k' k = false).
        { destruct (key_eqb k' k) eqn:E3; [|reflexivity]. rewrite (key_eqb_trans _ _ _ E3 E) in E2. discriminate. }
        rewrite H. reflexivity.
    + cbn [stats_get]. destruct (key_eqb k' k0) eqn:E2.
      * assert (H : key_eqb k' k = false).
        { destruct (key_eqb k' k) eqn:E3; [|reflexivity]. rewrite key_eqb_sym in E3.
          rewrite (key_eqb_trans _ _ _ E3 E2) in E. discriminate. }
        rewrite H. reflexivity.
      * apply IH.
Qed.

(* ---------- batch view of one aggregate column ---------- *)
(* the fold of the aggregate's step over a group's values *)
Fixpoint steps (ak : agg_kind) (o : option ast) (vs : list atom) : res (option ast) :=
  match vs with
  | [] => Ok o
  | v :: t => do s <- agg_step ak o v; steps ak (Some s) t
  end.

(* the values an aggregate column actually accumulates: NumHandler conversion threaded through the whole
   column (one handler is shared by all groups), ANone placeholders for COUNT *)
Definition eff_one (ak : agg_kind) (h : numh) (v : val) : res (atom * numh) :=
  match ak with
  | KCount => Ok (ANone, h)
  | _ => do a <- atom_of_val v; let '(pa, h') := conv ak h a in do a' <- pa; Ok (a', h')
  end.

Fixpoint eff_vals (ak : agg_kind) (h : numh) (vs : list val) : res (list atom * numh) :=
  match vs with
  | [] => Ok ([], h)
  | v :: t => do ah <- eff_one ak h v; do r <- eff_vals ak (snd ah) t; Ok (fst ah :: fst r, snd r)
  end.

(* values of the group of key k *)
Fixpoint group_of (k : key) (ks : list key) (vs : list atom) : list atom :=
  match ks, vs with
  | k' :: kt, v :: vt => if key_eqb k k' then v :: group_of k kt vt else group_of k kt vt
  | _, _ => []
  end.

Fixpoint col_feed (c : col) (kvs : list (key * val)) : res col :=
  match kvs with
  | [] => Ok c
  | (k, v) :: t => do c' <- col_increment c k v; col_feed c' t
  end.

Lemma bind_ok {T U} (r : res T) (f : T -> res U) v : bind r f = Ok v -> exists x, r = Ok x /\ f x = Ok v.
Proof. destruct r as [x|e]; cbn; intros H; [exists x; split; [reflexivity | assumption] | discriminate]. Qed.

Lemma col_increment_agg c ak k v c' :
  c_kind c = CAgg ak -> col_increment c k v = Ok c' ->
  c_kind c' = CAgg ak /\
  exists a' s, eff_one ak (c_numh c) v = Ok (a', c_numh c')
               /\ agg_step ak (stats_get (c_stats c) k) a' = Ok s
               /\ c_stats c' = stats_set (c_stats c) k s.
Proof.
  intros Hk H. unfold col_increment in H. rewrite Hk in H.
  assert (Hgen : forall ak0, ak0 = ak -> ak <> KCount ->
     (do a <- atom_of_val v; let '(pa, h') := conv ak (c_numh c) a in
      do a' <- pa; do s <- agg_step ak (stats_get (c_stats c) k) a';
      Ok {| c_kind := CAgg ak; c_numh := h'; c_stats := stats_set (c_stats c) k s |}) = Ok c' ->
     c_kind c' = CAgg ak /\
     exists a' s, (do a <- atom_of_val v; let '(pa, h') := conv ak (c_numh c) a in do a' <- pa; Ok (a', h')) = Ok (a', c_numh c')
               /\ agg_step ak (stats_get (c_stats c) k) a' = Ok s /\ c_stats c' = stats_set (c_stats c) k s).
  { intros ak0 _ _ G. apply bind_ok in G. destruct G as [a [Ha G]]. rewrite Ha. cbn [bind].
    destruct (conv ak (c_numh c) a) as [pa h1] eqn:Ep. apply bind_ok in G. destruct G as [a1 [Ha1 G]].
    apply bind_ok in G. destruct G as [s [Hs G]]. injection G as <-. rewrite Ha1. cbn [bind c_kind c_numh c_stats].
    split; [reflexivity|]. exists a1, s. repeat split. assumption. }
  destruct ak; try (apply (Hgen _ eq_refl); [discriminate | exact H]).
  cbv beta iota in H. apply bind_ok in H. destruct H as [s [Hs H]]. cbv beta in H. injection H as <-. cbn [c_kind c_numh c_stats eff_one].
  split; [reflexivity|]. exists ANone, s. repeat split. assumption.
Qed.

(* streaming = batch, for one aggregate column, from any intermediate state *)
Theorem col_feed_agg ak : forall kvs c c',
  c_kind c = CAgg ak -> col_feed c kvs = Ok c' ->
  exists avs, eff_vals ak (c_numh c) (map snd kvs) = Ok (avs, c_numh c') /\ c_kind c' = CAgg ak
    /\ forall k, steps ak (stats_get (c_stats c) k) (group_of k (map fst kvs) avs) = Ok (stats_get (c_stats c') k).
Proof.
  induction kvs as [|[k0 v] kvs IH]; intros c c' Hk H.
  - cbn in H. injection H as <-. exists []. cbn. repeat split; try assumption.
  - cbn [col_feed] in H. apply bind_ok in H. destruct H as [c1 [H1 H]].
    destruct (col_increment_agg c ak k0 v c1 Hk H1) as [Hk1 [a' [s [E1 [E3 E4]]]]].
    destruct (IH c1 c' Hk1 H) as [avs [F1 [F3 F4]]].
    exists (a' :: avs). cbn [map fst snd]. split; [|split; [assumption|]].
    + cbn [eff_vals]. rewrite E1. cbn [bind fst snd]. rewrite F1. reflexivity.
    + intros k. cbn [group_of]. specialize (F4 k). rewrite E4, stats_set_get in F4.
      destruct (key_eqb k k0) eqn:Ek.
      * cbn [steps]. assert (Hs : stats_get (c_stats c) k = stats_get (c_stats c) k0).
        { clear -Ek. induction (c_stats c) as [|[k1 s1] l IHl]; [reflexivity|]. cbn. rewrite (key_eqb_congr _ _ _ Ek).
          destruct (key_eqb k0 k1); [reflexivity | assumption]. }
        rewrite Hs, E3. cbn [bind]. exact F4.
      * exact F4.
Qed.

(* the non-aggregate columns of an aggregate query: constant within each group, else the query fails *)
Theorem col_feed_const : forall kvs c c',
  c_kind c = CConst -> col_feed c kvs = Ok c' ->
  c_kind c' = CConst /\
  forall k, match stats_get (c_stats c) k with
            | Some s => stats_get (c_stats c') k = Some s
            | None => True
            end.
Proof.
  induction kvs as [|[k0 v] kvs IH]; intros c c' Hk H.
  - cbn in H. injection H as <-. split; [assumption|]. intros k. destruct (stats_get (c_stats c) k); auto.
  - cbn [col_feed] in H. apply bind_ok in H. destruct H as [c1 [H1 H]].
    unfold col_increment in H1. rewrite Hk in H1.
    destruct (stats_get (c_stats c) k0) as [[old| | | |]|] eqn:E0; try discriminate.
    + destruct (val_eqb old v); [|discriminate]. injection H1 as <-. apply (IH c c' Hk H).
    + injection H1 as <-. destruct (IH {| c_kind := CConst; c_numh := c_numh c; c_stats := stats_set (c_stats c) k0 (SVal v) |} c' eq_refl H) as [G1 G2]. split; [assumption|].
      intros k. specialize (G2 k). cbn [c_stats] in G2. rewrite stats_set_get in G2.
      destruct (stats_get (c_stats c) k) as [s|] eqn:Ek; [|exact I].
      destruct (key_eqb k k0) eqn:Ekk; [|exact G2].
      exfalso. assert (Hs : stats_get (c_stats c) k = stats_get (c_stats c) k0).
      { clear -Ekk. induction (c_stats c) as [|[k1 s1] l IHl]; [reflexivity|]. cbn. rewrite (key_eqb_congr _ _ _ Ekk).
        destruct (key_eqb k0 k1); [reflexivity | assumption]. }
      congruence.
Qed.

(* a second, different value for a group that already has one fails at that record *)
Theorem const_column_fails c k v old :
  c_kind c = CConst -> stats_get (c_stats c) k = Some (SVal old) -> val_eqb old v = false ->
  col_increment c k v = Err (XRuntime 1).
Proof. intros Hk Hs He. unfold col_increment. rewrite Hk, Hs, He. reflexivity. Qed.

(* ---------- the folds are the mathematical aggregates (integer arguments) ---------- *)
Lemma steps_count : forall vs n, steps KCount (Some (SCount n)) vs = Ok (Some (SCount (n + length vs)%nat)).
Proof. induction vs as [|v vs IH]; intros n; cbn; [rewrite Nat.add_0_r; reflexivity|]. rewrite IH. do 3 f_equal. lia. Qed.

Theorem count_is_length v vs : steps KCount None (v :: vs) = Ok (Some (SCount (length (v :: vs)))).
Proof. cbn [steps agg_step bind]. rewrite steps_count. reflexivity. Qed.

Lemma steps_array : forall vs l, steps KArray (Some (SList l)) vs = Ok (Some (SList (l ++ vs))).
Proof. induction vs as [|v vs IH]; intros l; cbn; [rewrite app_nil_r; reflexivity|]. rewrite IH, <- app_assoc. reflexivity. Qed.

Theorem array_agg_is_the_list v vs : steps KArray None (v :: vs) = Ok (Some (SList (v :: vs))).
Proof. cbn [steps agg_step bind]. rewrite steps_array. reflexivity. Qed.

Lemma steps_any : forall vs s, steps KAny (Some s) vs = Ok (Some s).
Proof. induction vs as [|v vs IH]; intros s; cbn; [reflexivity | apply IH]. Qed.

Theorem any_value_is_first v vs : steps KAny None (v :: vs) = Ok (Some (SVal (VA v))).
Proof. cbn [steps agg_step bind]. apply steps_any. Qed.

Definition ints (zs : list Z) : list atom := map AInt zs.

Lemma add_a_int x y : add_a (AInt x) (AInt y) = Ok (AInt (x + y)%Z).
Proof. unfold add_a, add_atoms. cbn. unfold Qred, Qplus. cbn. rewrite !Z.mul_1_r. 
  destruct (Z.ggcd (x + y)%Z 1%Z) as [g [a b]] eqn:E. pose proof (Z.ggcd_correct_divisors (x + y)%Z 1%Z) as H. rewrite E in H.
  destruct H as [H1 H2]. pose proof (Z.ggcd_gcd (x + y)%Z 1%Z) as Hg. rewrite E in Hg. cbn in Hg. rewrite Z.gcd_1_r in Hg. subst g.
  cbn. f_equal. f_equal. lia.
Qed.

Lemma steps_sum : forall zs acc, steps KSum (Some (SVal (VA (AInt acc)))) (ints zs) = Ok (Some (SVal (VA (AInt (fold_left Z.add zs acc))))).
Proof.
  induction zs as [|z zs IH]; intros acc; cbn [ints map steps fold_left]; [reflexivity|].
  cbn [agg_step]. rewrite add_a_int. cbn [bind]. apply IH.
Qed.

Theorem sum_is_sum z zs : steps KSum None (ints (z :: zs)) = Ok (Some (SVal (VA (AInt (fold_left Z.add (z :: zs) 0%Z))))).
Proof. cbn [ints map steps agg_step]. rewrite add_a_int. cbn [bind fold_left]. apply steps_sum. Qed.

Lemma atom_ltb_int x y : atom_ltb (AInt x) (AInt y) = Some (Z.ltb x y).
Proof.
  cbn. unfold Qle_bool. cbn. rewrite !Z.mul_1_r. f_equal.
  destruct (Z.leb_spec y x), (Z.ltb_spec x y); try reflexivity; lia.
Qed.

Lemma min_a_int c v : min_a (AInt c) (AInt v) = Ok (AInt (Z.min c v)).
Proof.
  unfold min_a. rewrite atom_ltb_int. destruct (Z.ltb_spec v c); f_equal; f_equal; lia.
Qed.
Lemma max_a_int c v : max_a (AInt c) (AInt v) = Ok (AInt (Z.max c v)).
Proof.
  unfold max_a. rewrite atom_ltb_int. destruct (Z.ltb_spec c v); f_equal; f_equal; lia.
Qed.

Lemma steps_min : forall zs acc, steps KMin (Some (SVal (VA (AInt acc)))) (ints zs) = Ok (Some (SVal (VA (AInt (fold_left Z.min zs acc))))).
Proof.
  induction zs as [|z zs IH]; intros acc; cbn [ints map steps fold_left]; [reflexivity|].
  cbn [agg_step]. rewrite min_a_int. cbn [bind]. apply IH.
Qed.
Theorem min_is_min z zs : steps KMin None (ints (z :: zs)) = Ok (Some (SVal (VA (AInt (fold_left Z.min zs z))))).
Proof. cbn [ints map steps agg_step bind]. apply steps_min. Qed.

Lemma steps_max : forall zs acc, steps KMax (Some (SVal (VA (AInt acc)))) (ints zs) = Ok (Some (SVal (VA (AInt (fold_left Z.max zs acc))))).
Proof.
  induction zs as [|z zs IH]; intros acc; cbn [ints map steps fold_left]; [reflexivity|].
  cbn [agg_step]. rewrite max_a_int. cbn [bind]. apply IH.
Qed.
Theorem max_is_max z zs : steps KMax None (ints (z :: zs)) = Ok (Some (SVal (VA (AInt (fold_left Z.max zs z))))).
Proof. cbn [ints map steps agg_step bind]. apply steps_max. Qed.

Lemma steps_avg : forall zs acc n, steps KAvg (Some (SSumCnt (AInt acc) n)) (ints zs)
  = Ok (Some (SSumCnt (AInt (fold_left Z.add zs acc)) (n + length zs)%nat)).
Proof.
  induction zs as [|z zs IH]; intros acc n; cbn [ints map steps fold_left length]; [rewrite Nat.add_0_r; reflexivity|].
  cbn [agg_step]. rewrite add_a_int. cbn [bind]. rewrite IH. do 3 f_equal. lia.
Qed.

(* AVG = sum / count, as an exact rational *)
Theorem avg_is_mean z zs :
  exists s, steps KAvg None (ints (z :: zs)) = Ok (Some s)
            /\ agg_final KAvg s = Ok (VA (AFlt (Qred (inject_Z (fold_left Z.add (z :: zs) 0%Z) / inject_Z (Z.of_nat (length (z :: zs))))))).
Proof.
  eexists. split.
  - cbn [ints map steps agg_step bind]. apply steps_avg.
  - cbn [agg_final q_of num_of bind fold_left length]. unfold Qnat. rewrite Z.add_0_l. reflexivity.
Qed.

(* VARIANCE: the accumulated (sum, sum of squares, count) give the population variance *)
Fixpoint qsum (l : list Q) : Q := match l with [] => 0 | x :: t => x + qsum t end.

Lemma qsum_sq_dev (l : list Q) (m : Q) :
  qsum (map (fun x => (x - m) * (x - m)) l) == qsum (map (fun x => x * x) l) - (2 # 1) * m * qsum l + inject_Z (Z.of_nat (length l)) * m * m.
Proof.
  induction l as [|x l IH]; cbn [map qsum length].
  - cbn. ring.
  - rewrite IH. rewrite Nat2Z.inj_succ. unfold Z.succ. rewrite inject_Z_plus. ring.
Qed.

Theorem variance_population (l : list Q) :
  l <> [] ->
  let n := inject_Z (Z.of_nat (length l)) in
  let mean := qsum l / n in
  qsum (map (fun x => x * x) l) / n - (qsum l / n) * (qsum l / n)
  == qsum (map (fun x => (x - mean) * (x - mean)) l) / n.
Proof.
  intros Hl n mean. rewrite (qsum_sq_dev l mean). unfold mean. fold n.
  assert (Hn : ~ n == 0).
  { unfold n. destruct l as [|x t]; [congruence|]. cbn [length]. rewrite Nat2Z.inj_succ. unfold Qeq. cbn. lia. }
  field. exact Hn.
Qed.

(* ---------- the key set and one row per group ---------- *)
Lemma keys_add_in l k k' : existsb (key_eqb k') (keys_add l k) = existsb (key_eqb k') l || key_eqb k' k.
Proof.
  unfold keys_add. destruct (existsb (key_eqb k) l) eqn:E.
  - destruct (key_eqb k' k) eqn:E2; [|rewrite orb_false_r; reflexivity]. rewrite orb_true_r.
    apply existsb_exists in E. destruct E as [x [Hx Hk]]. apply existsb_exists. exists x. split; [assumption|].
    eapply key_eqb_trans; eassumption.
  - rewrite existsb_app. cbn. rewrite orb_false_r. reflexivity.
Qed.

Fixpoint distinct_ks (l : list key) : Prop :=
  match l with [] => True | k :: t => existsb (key_eqb k) t = false /\ distinct_ks t end.

Lemma distinct_ks_snoc : forall l k, distinct_ks l -> existsb (key_eqb k) l = false -> distinct_ks (l ++ [k]).
Proof.
  induction l as [|x l IH]; intros k D H; cbn; [split; [reflexivity | exact I]|].
  cbn in D, H. destruct D as [D1 D2]. apply orb_false_iff in H. destruct H as [H1 H2]. split.
  - rewrite existsb_app, D1. cbn. rewrite key_eqb_sym, H1. reflexivity.
  - apply IH; assumption.
Qed.

Lemma keys_add_distinct l k : distinct_ks l -> distinct_ks (keys_add l k).
Proof.
  intros D. unfold keys_add. destruct (existsb (key_eqb k) l) eqn:E; [assumption|]. apply distinct_ks_snoc; assumption.
Qed.

Lemma sort_keys_perm l : Permutation (sort_keys l) l.
Proof.
  induction l as [|k l IH]; cbn; [reflexivity|].
  assert (Hi : forall x s, Permutation (ins_key x s) (x :: s)).
  { intros x s. induction s as [|h t IHs]; cbn; [reflexivity|]. destruct (key_leb x h); [reflexivity|].
    rewrite IHs. apply perm_swap. }
  rewrite Hi. constructor. exact IH.
Qed.

Lemma final_rows_length cs : forall ks rows, final_rows cs ks = Ok rows -> length rows = length ks.
Proof.
  induction ks as [|k ks IH]; intros rows H; cbn in H.
  - injection H as <-. reflexivity.
  - apply bind_ok in H. destruct H as [r [_ H]]. apply bind_ok in H. destruct H as [rs [Hrs H]]. injection H as <-.
    cbn. f_equal. apply IH. assumption.
Qed.

Theorem one_row_per_group cs ks rows :
  final_rows cs (sort_keys ks) = Ok rows -> length rows = length ks.
Proof.
  intros H. rewrite (final_rows_length cs _ rows H). apply Permutation_length. apply sort_keys_perm.
Qed.

(* ---------- keys come out in ascending order ---------- *)
Section KeyOrder.
Variable D : key -> Prop.
Hypothesis total : forall a b, D a -> D b -> key_leb a b = true \/ key_leb b a = true.
Hypothesis trans : forall a b c, D a -> D b -> D c -> key_leb a b = true -> key_leb b c = true -> key_leb a c = true.

Lemma ins_key_perm x s : Permutation (ins_key x s) (x :: s).
Proof.
  induction s as [|h t IHs]; cbn; [reflexivity|]. destruct (key_leb x h); [reflexivity|]. rewrite IHs. apply perm_swap.
Qed.

Lemma ins_key_sorted x l : D x -> Forall D l ->
  StronglySorted (fun a b => key_leb a b = true) l -> StronglySorted (fun a b => key_leb a b = true) (ins_key x l).
Proof.
  intros Dx Dl Hs. induction Hs as [|h t Hs IH Hh]; cbn.
  - constructor; constructor.
  - inversion Dl as [|? ? Dh Dt]; subst. destruct (key_leb x h) eqn:E.
    + constructor; [constructor; assumption|]. constructor; [exact E|].
      rewrite Forall_forall in Hh, Dt |- *. intros y Hy. apply (trans x h y); auto.
    + constructor; [apply IH; assumption|].
      eapply Permutation_Forall; [symmetry; apply ins_key_perm|]. constructor; [|assumption].
      destruct (total x h Dx Dh) as [T|T]; [congruence | assumption].
Qed.

Theorem sort_keys_sorted l : Forall D l -> StronglySorted (fun a b => key_leb a b = true) (sort_keys l).
Proof.
  induction l as [|k l IH]; intros H; cbn; [constructor|]. inversion H; subst.
  apply ins_key_sorted; [assumption | | apply IH; assumption].
  eapply Permutation_Forall; [symmetry; apply sort_keys_perm | assumption].
Qed.
End KeyOrder.

(* ---------- MEDIAN: the values are sorted numerically ---------- *)
Lemma atom_leb_int' x y : atom_leb (AInt x) (AInt y) = Z.leb x y.
Proof.
  unfold atom_leb. rewrite atom_ltb_int. cbn [atom_eqb num_of]. unfold Qeq_bool, Zeq_bool. cbn. rewrite !Z.mul_1_r.
  destruct (Z.ltb_spec x y), (Z.compare_spec x y), (Z.leb_spec x y); cbn; try reflexivity; lia.
Qed.

Fixpoint ins_z (a : Z) (l : list Z) : list Z :=
  match l with [] => [a] | h :: t => if Z.leb a h then a :: h :: t else h :: ins_z a t end.
Definition sort_z (l : list Z) : list Z := fold_right ins_z [] l.

Lemma ins_atom_ints a l : ins_atom (AInt a) (ints l) = ints (ins_z a l).
Proof.
  induction l as [|h t IH]; [reflexivity|]. cbn [ints map ins_atom ins_z]. rewrite atom_leb_int'.
  destruct (Z.leb a h); [reflexivity|]. cbn [map]. f_equal. exact IH.
Qed.

Lemma sort_atoms_ints l : sort_atoms (ints l) = ints (sort_z l).
Proof.
  induction l as [|a l IH]; [reflexivity|]. cbn [ints map sort_atoms fold_right sort_z].
  change (fold_right ins_atom [] (map AInt l)) with (sort_atoms (ints l)). rewrite IH. apply ins_atom_ints.
Qed.

Lemma ins_z_perm a l : Permutation (ins_z a l) (a :: l).
Proof. induction l as [|h t IH]; cbn; [reflexivity|]. destruct (Z.leb a h); [reflexivity|]. rewrite IH. apply perm_swap. Qed.

Lemma sort_z_perm l : Permutation (sort_z l) l.
Proof. induction l as [|a l IH]; cbn; [reflexivity|]. rewrite ins_z_perm. constructor. exact IH. Qed.

Lemma ins_z_sorted a l : StronglySorted Z.le l -> StronglySorted Z.le (ins_z a l).
Proof.
  intros Hs. induction Hs as [|h t Hs IH Hh]; cbn; [constructor; constructor|].
  destruct (Z.leb_spec a h).
  - constructor; [constructor; assumption|]. constructor; [assumption|]. rewrite Forall_forall in *. intros y Hy. specialize (Hh y Hy). lia.
  - constructor; [assumption|]. eapply Permutation_Forall; [symmetry; apply ins_z_perm|]. constructor; [lia | assumption].
Qed.

Lemma sort_z_sorted l : StronglySorted Z.le (sort_z l).
Proof. induction l as [|a l IH]; cbn; [constructor | apply ins_z_sorted; exact IH]. Qed.

(* MEDIAN over integers: the middle element of the ascending arrangement (odd count); for an even count the two middle
   elements if they are equal, otherwise their mean *)
Theorem median_is_middle (zs : list Z) :
  zs <> [] ->
  let s := sort_z zs in
  let m := Nat.div (length zs) 2 in
  Permutation s zs /\ StronglySorted Z.le s /\
  agg_final KMedian (SList (ints zs)) =
    (if Nat.odd (length zs) then Ok (VA (AInt (nth m s 0%Z)))
     else if Z.eqb (nth (m - 1)%nat s 0%Z) (nth m s 0%Z) then Ok (VA (AInt (nth (m - 1)%nat s 0%Z)))
          else Ok (VA (AFlt (Qred ((inject_Z (nth (m - 1)%nat s 0%Z) + inject_Z (nth m s 0%Z)) / 2))))).
Proof.
  intros Hne s m. split; [apply sort_z_perm|]. split; [apply sort_z_sorted|].
  cbn [agg_final]. rewrite sort_atoms_ints. fold s.
  assert (Hlen : length (ints s) = length zs).
  { unfold ints. rewrite map_length. unfold s. apply Permutation_length. apply sort_z_perm. }
  rewrite Hlen. fold m.
  assert (Hnth : forall i : nat, (i < length zs)%nat -> nth i (ints s) ANone = AInt (nth i s 0%Z)).
  { intros i Hi. unfold ints. rewrite (nth_indep _ ANone (AInt 0%Z)) by (rewrite map_length; unfold s; rewrite (Permutation_length (sort_z_perm zs)); exact Hi).
    apply (map_nth AInt s 0%Z i). }
  assert (Hpos : (0 < length zs)%nat) by (destruct zs; [congruence | cbn; lia]).
  assert (Hm : (m < length zs)%nat) by (unfold m; apply Nat.div_lt; lia).
  destruct (Nat.odd (length zs)) eqn:Eo.
  - rewrite (Hnth m Hm). reflexivity.
  - rewrite (Hnth m Hm), (Hnth (m - 1)%nat) by lia. rewrite atom_eqb_cls. cbn [cls cls_eqb].
    unfold Qeq_bool, Zeq_bool. cbn [Qnum Qden inject_Z]. rewrite !Z.mul_1_r. rewrite Z.eqb_compare.
    destruct (Z.compare _ _); reflexivity.
Qed.
