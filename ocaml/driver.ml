(* driver.ml — generic case runner for the extracted model.
   stdin: one case per line "<code> <sexp>"; stdout: one result sexp per line.
   sexp ::= <nonneg int> | '(' sexp* ')'.  Numbers are converted to/from the extracted N. *)
open Model

let rec pos_of_int (i : int) : positive =
  if i = 1 then XH
  else if i land 1 = 0 then XO (pos_of_int (i lsr 1))
  else XI (pos_of_int (i lsr 1))
let n_of_int (i : int) : n = if i = 0 then N0 else Npos (pos_of_int i)
let rec int_of_pos (p : positive) : int =
  match p with XH -> 1 | XO q -> 2 * int_of_pos q | XI q -> 2 * int_of_pos q + 1
let int_of_n (x : n) : int = match x with N0 -> 0 | Npos p -> int_of_pos p

(* numbers beyond the native int range (integer cells of 19+ digits): decimal <-> N in chunks of 9 digits with the extracted N.add / N.mul / N.div_eucl *)
let rec pos_bits (p : positive) : int = match p with XH -> 1 | XO q | XI q -> 1 + pos_bits q
let chunk = n_of_int 1000000000
let n_of_decimal (d : string) : n =
  let len = String.length d in
  if len <= 18 then n_of_int (int_of_string d)
  else begin
    let acc = ref N0 and i = ref 0 in
    let first = len mod 9 in
    if first > 0 then (acc := n_of_int (int_of_string (String.sub d 0 first)); i := first);
    while !i < len do
      acc := N.add (N.mul !acc chunk) (n_of_int (int_of_string (String.sub d !i 9)));
      i := !i + 9
    done;
    !acc
  end
let decimal_of_n (x : n) : string =
  match x with
  | N0 -> "0"
  | Npos p when pos_bits p <= 61 -> string_of_int (int_of_pos p)
  | _ ->
      let parts = ref [] and cur = ref x in
      while (match !cur with N0 -> false | Npos p -> pos_bits p > 61) do
        let (q, r) = N.div_eucl !cur chunk in
        parts := Printf.sprintf "%09d" (int_of_n r) :: !parts;
        cur := q
      done;
      String.concat "" (string_of_int (int_of_n !cur) :: !parts)

let parse (s : string) (pos : int ref) : sx =
  let len = String.length s in
  let rec skip () = if !pos < len && s.[!pos] = ' ' then (incr pos; skip ()) in
  let rec value () : sx =
    skip ();
    if !pos >= len then failwith "eof"
    else if s.[!pos] = '(' then begin
      incr pos;
      let items = ref [] in
      let rec loop () =
        skip ();
        if !pos >= len then failwith "unclosed"
        else if s.[!pos] = ')' then incr pos
        else begin items := value () :: !items; loop () end in
      loop ();
      L (List.rev !items)
    end else begin
      let st = !pos in
      while !pos < len && s.[!pos] >= '0' && s.[!pos] <= '9' do incr pos done;
      if !pos = st then failwith "bad char";
      A (n_of_decimal (String.sub s st (!pos - st)))
    end in
  value ()

let rec print (b : Buffer.t) (x : sx) : unit =
  match x with
  | A v -> Buffer.add_string b (decimal_of_n v)
  | L l ->
      Buffer.add_char b '(';
      List.iteri (fun i y -> if i > 0 then Buffer.add_char b ' '; print b y) l;
      Buffer.add_char b ')'

let () =
  let b = Buffer.create 65536 in
  (try
    while true do
      let line = input_line stdin in
      if String.length line > 0 then begin
        let pos = ref 0 in
        let code = parse line pos in
        let arg = parse line pos in
        let r = match code with A c -> dispatch c arg | L _ -> A (n_of_int 4040404) in
        Buffer.clear b; print b r; Buffer.add_char b '\n';
        print_string (Buffer.contents b)
      end
    done
  with End_of_file -> ());
  flush stdout
